    use crate::verif_spec as spec;
    use crate::link::crc::verif_kani_c06_crc as crcv;
    use crate::link::function::Function;

    // @harness ids=C06,C01 tier=quick kind=proof units=link::parser::Parser::calc_trailer_length timeout=120 note="== n + 2*ceil(n/16) for all 256 lengths"
    #[kani::proof]
    fn vk_c06_trailer_length() {
        let d: u8 = kani::any();
        assert_eq!(Parser::calc_trailer_length(d), spec::trailer_len(d as usize));
        kani::cover!(d == 250);
        kani::cover!(d == 0);
    }

    fn any_mode() -> LinkErrorMode {
        if kani::any() { LinkErrorMode::Close } else { LinkErrorMode::Discard }
    }

    // @harness ids=C06,C01 tier=quick kind=proof units=link::parser::Parser::parse_sync1,link::parser::Parser::parse_sync2 timeout=120 note="start bytes compared exactly: state advances iff byte is 0x05 / 0x64, one byte consumed, else error"
    #[kani::proof]
    fn vk_c06_parse_sync() {
        let buf: [u8; 2] = kani::any();
        let n: usize = kani::any();
        kani::assume(n <= 2);
        let mut p = Parser::new(any_mode());
        let mut c = ReadCursor::new(&buf[..n]);
        let r = p.parse_sync1(&mut c);
        if n == 0 {
            assert!(r.is_ok() && matches!(p.state, ParseState::FindSync1) && c.remaining() == 0);
        } else if buf[0] == 0x05 {
            assert!(r.is_ok() && matches!(p.state, ParseState::FindSync2) && c.remaining() == n - 1);
            let r2 = p.parse_sync2(&mut c);
            if n == 1 {
                assert!(r2.is_ok() && matches!(p.state, ParseState::FindSync2));
            } else if buf[1] == 0x64 {
                assert!(r2.is_ok() && matches!(p.state, ParseState::ReadHeader) && c.remaining() == 0);
                kani::cover!(true);
            } else {
                assert!(r2.is_err() && !matches!(p.state, ParseState::ReadHeader | ParseState::ReadBody(_, _)));
            }
        } else {
            assert!(r.is_err() && matches!(p.state, ParseState::FindSync1));
            kani::cover!(true);
        }
    }

    // @harness ids=C06,C01,C07 tier=quick kind=proof units=link::parser::Parser::parse_header,link::header::ControlField::from,link::header::AnyAddress::from timeout=300 note="all 2^64 header bytes: ReadBody(h,t) iff len>=5 and CRC == calc_crc_with_0564(first 6 bytes); h = exactly the transmitted control/dest/src; t = trailer_len(len-5)"
    #[kani::proof]
    #[kani::unwind(8)]
    fn vk_c06_parse_header() {
        let buf: [u8; 9] = kani::any();
        let n: usize = kani::any();
        kani::assume(n <= 9);
        let mut p = Parser::new(any_mode());
        p.state = ParseState::ReadHeader;
        let mut c = ReadCursor::new(&buf[..n]);
        let r = p.parse_header(&mut c);
        if n < 8 {
            assert!(r.is_ok() && matches!(p.state, ParseState::ReadHeader) && c.remaining() == n);
            kani::cover!(n == 7);
            return;
        }
        let len = buf[0];
        let crc_rx = (buf[6] as u16) | ((buf[7] as u16) << 8);
        let intact = len >= 5 && crc_rx == crate::link::crc::calc_crc_with_0564(&buf[0..6]);
        match p.state {
            ParseState::ReadBody(h, t) => {
                assert!(intact && r.is_ok());
                assert_eq!(c.remaining(), n - 8);
                assert_eq!(t, spec::trailer_len((len - 5) as usize));
                // exactly the transmitted fields
                assert_eq!(h.control.to_u8(), buf[1]);
                assert_eq!(h.control.master, buf[1] & 0x80 != 0);
                assert_eq!(h.control.fcb, buf[1] & 0x20 != 0);
                assert_eq!(h.control.fcv, buf[1] & 0x10 != 0);
                assert_eq!(h.control.func.to_u8(), buf[1] & 0x4F);
                assert_eq!(h.destination.value(), (buf[2] as u16) | ((buf[3] as u16) << 8));
                assert_eq!(h.source.value(), (buf[4] as u16) | ((buf[5] as u16) << 8));
                kani::cover!(len == 255);
                kani::cover!(len == 5);
            }
            _ => {
                assert!(!intact);
                assert!(r.is_err());
                kani::cover!(len >= 5);
                kani::cover!(len < 5);
            }
        }
    }

    // @harness ids=C06,C07 tier=quick kind=proof units=link::header::ControlField::to_u8,link::header::ControlField::from,link::function::Function::from,link::function::Function::to_u8,link::header::AnyAddress::from,link::header::AnyAddress::value timeout=120 note="control byte and address codecs are mutually inverse on the full domain; address classes are the standard's"
    #[kani::proof]
    fn vk_c06_control_and_address_codecs() {
        let b: u8 = kani::any();
        assert_eq!(ControlField::from(b).to_u8(), b);
        let f = Function::from(b & 0x4F);
        assert_eq!(f.to_u8(), b & 0x4F);
        let a: u16 = kani::any();
        let any = AnyAddress::from(a);
        assert_eq!(any.value(), a);
        match any {
            AnyAddress::Endpoint(e) => assert!(a < 0xFFF0 && e.raw_value() == a),
            AnyAddress::Broadcast(_) => assert!(a >= 0xFFFD),
            AnyAddress::SelfAddress => assert!(a == 0xFFFC),
            AnyAddress::Reserved(x) => assert!(x == a && a >= 0xFFF0 && a < 0xFFFC),
        }
        kani::cover!(a == 0xFFFB);
        kani::cover!(b == 0xFF);
    }

    /// parse_body for user-data length N (T = trailer_len(N), TX = T + 3 trailing bytes of a following frame);
    /// CRC behind the logged contract stub
    fn body_contract<const N: usize, const T: usize, const TX: usize>() {
        assert!(T == spec::trailer_len(N) && TX == T + 3);
        let all: [u8; TX] = kani::any();
        let mut p = Parser::new(any_mode());
        let hdr = Header::new(ControlField::from(kani::any()), AnyAddress::from(kani::any()), AnyAddress::from(kani::any()));
        p.state = ParseState::ReadBody(hdr, T);
        let mut payload = FramePayload::new();
        payload.length = kani::any();
        kani::assume(payload.length <= 250);
        let mut c = ReadCursor::new(&all);
        crcv::crc_log_reset();
        let r = p.parse_body(T, &mut c, &mut payload);
        let nblocks = (N + 15) / 16;
        let calls = crcv::crc_calls();
        assert!(calls <= nblocks);
        // every call was made on exactly the data bytes of block k, in order, once each
        let mut all_match = true;
        let mut k = 0;
        while k < nblocks {
            let dk = if N - 16 * k >= 16 { 16 } else { N - 16 * k };
            if k < calls {
                let (ptr, len, res) = crcv::crc_log(k);
                assert!(ptr == all[18 * k..].as_ptr());
                assert_eq!(len, dk);
                let rx = (all[18 * k + dk] as u16) | ((all[18 * k + dk + 1] as u16) << 8);
                if res != rx {
                    // (whether further blocks are still looked at after a mismatch is not demanded)
                    all_match = false;
                }
            }
            k += 1;
        }
        let intact = all_match && calls == nblocks;
        match r {
            Ok(Some(())) => {
                assert!(intact);
                assert_eq!(c.remaining(), 3);
                assert!(matches!(p.state, ParseState::FindSync1));
                assert_eq!(payload.get().len(), N);
                let mut i = 0;
                while i < N {
                    assert_eq!(payload.get()[i], all[(i / 16) * 18 + (i % 16)]);
                    i += 1;
                }
                kani::cover!(true);
            }
            Ok(None) => assert!(false),
            Err(_) => {
                assert!(!intact);
                kani::cover!(true);
            }
        }
    }

    fn short_contract<const T: usize, const AVAIL: usize>() {
        assert!(AVAIL < T);
        let all: [u8; AVAIL] = kani::any();
        let mut p = Parser::new(any_mode());
        let hdr = Header::new(ControlField::from(kani::any()), AnyAddress::from(kani::any()), AnyAddress::from(kani::any()));
        p.state = ParseState::ReadBody(hdr, T);
        let mut payload = FramePayload::new();
        let mut c = ReadCursor::new(&all);
        crcv::crc_log_reset();
        let r = p.parse_body(T, &mut c, &mut payload);
        assert!(matches!(r, Ok(None)));
        assert!(c.remaining() == AVAIL && crcv::crc_calls() == 0);
        assert!(matches!(p.state, ParseState::ReadBody(_, t2) if t2 == T));
        kani::cover!(true);
    }

    // @harness ids=C06,C01 tier=quick kind=bounded bound="(T,avail) in {(282,281),(282,0),(3,2),(21,18)}; symbolic slice lengths exhaust CBMC memory" units=link::parser::Parser::parse_body timeout=300 note="fewer bytes than the trailer: Ok(None), nothing consumed, state kept, CRC not called"
    #[kani::proof]
    #[kani::unwind(20)]
    #[kani::stub(crate::link::crc::calc_crc, crate::link::crc::verif_kani_c06_crc::stub_calc_crc)]
    fn vk_c06_parse_body_short() {
        short_contract::<282, 281>();
        short_contract::<282, 0>();
        short_contract::<3, 2>();
        short_contract::<21, 18>();
    }

    macro_rules! body_harness {
        ($name:ident, $n:expr, $t:expr) => {
            #[kani::proof]
            #[kani::unwind(252)]
            #[kani::stub(crate::link::crc::calc_crc, crate::link::crc::verif_kani_c06_crc::stub_calc_crc)]
            fn $name() {
                body_contract::<$n, $t, { $t + 3 }>();
            }
        };
    }

    // @harness ids=C06,C01 tier=quick kind=proof units=link::parser::Parser::parse_body timeout=120 note="N=0 (header-only frame): delivered at once with an empty payload, nothing consumed"
    #[kani::proof]
    #[kani::unwind(4)]
    fn vk_c06_parse_body_n0() {
        let all: [u8; 3] = kani::any();
        let mut p = Parser::new(any_mode());
        let hdr = Header::new(ControlField::from(kani::any()), AnyAddress::from(kani::any()), AnyAddress::from(kani::any()));
        p.state = ParseState::ReadBody(hdr, 0);
        let mut payload = FramePayload::new();
        payload.length = kani::any();
        kani::assume(payload.length <= 250);
        let mut c = ReadCursor::new(&all);
        let r = p.parse_body(0, &mut c, &mut payload);
        assert!(matches!(r, Ok(Some(()))));
        assert!(c.remaining() == 3 && payload.get().len() == 0 && matches!(p.state, ParseState::FindSync1));
        kani::cover!(true);
    }
    // @harness ids=C06,C01 tier=quick kind=proof stubs=1 units=link::parser::Parser::parse_body,link::parser::FramePayload::push timeout=900 note="N=1"
    body_harness!(vk_c06_parse_body_n1, 1, 3);
    // @harness ids=C06,C01 tier=quick kind=proof stubs=1 units=link::parser::Parser::parse_body,link::parser::FramePayload::push timeout=900 note="N=16"
    body_harness!(vk_c06_parse_body_n16, 16, 18);
    // @harness ids=C06,C01 tier=quick kind=proof stubs=1 units=link::parser::Parser::parse_body,link::parser::FramePayload::push timeout=900 note="N=17"
    body_harness!(vk_c06_parse_body_n17, 17, 21);
    // @harness ids=C06,C01 tier=quick kind=proof stubs=1 units=link::parser::Parser::parse_body,link::parser::FramePayload::push timeout=900 note="N=33"
    body_harness!(vk_c06_parse_body_n33, 33, 39);
    // @harness ids=C06,C01 tier=quick kind=proof stubs=1 units=link::parser::Parser::parse_body,link::parser::FramePayload::push timeout=900 note="N=249"
    body_harness!(vk_c06_parse_body_n249, 249, 281);
    // @harness ids=C06,C01 tier=quick kind=proof stubs=1 units=link::parser::Parser::parse_body,link::parser::FramePayload::push timeout=900 note="N=250"
    body_harness!(vk_c06_parse_body_n250, 250, 282);

    // ---------------------------------------------------------------- dispatcher: parse_impl / parse

    fn header_ok_at(b: &[u8], j: usize) -> bool {
        // is there a CRC-valid link header starting at offset j (needs 10 bytes)?
        b[j] == 0x05 && b[j + 1] == 0x64 && b[j + 2] >= 5
            && ((b[j + 8] as u16) | ((b[j + 9] as u16) << 8)) == crcv::hcrc_at(j + 2)
    }

    // Contract stub for Parser::parse_body (its contract is proved on the real body by the vk_c06_parse_body_* harnesses):
    // fewer than T bytes -> Ok(None), nothing changes; otherwise exactly T bytes are consumed and either an error is
    // returned, or the frame is delivered (state FindSync1, payload replaced). BODY_DELIVERED counts deliveries.
    pub(crate) static mut BODY_DELIVERED: usize = 0;
    pub(crate) static mut BODY_LAST_T: usize = 0;
    impl Parser {
        pub(crate) fn stub_parse_body(
            &mut self,
            trailer_length: usize,
            cursor: &mut ReadCursor,
            payload: &mut FramePayload,
        ) -> Result<Option<()>, ParseError> {
            if cursor.remaining() < trailer_length {
                return Ok(None);
            }
            let _ = cursor.read_bytes(trailer_length);
            unsafe { BODY_LAST_T = trailer_length; }
            // T == 0 (header-only frame) has no block to fail: proved by vk_c06_parse_body_n0
            if trailer_length != 0 && kani::any() {
                return Err(ParseError::BadFrame(FrameError::BadBodyCrc));
            }
            payload.length = kani::any();
            kani::assume(payload.length <= 250);
            self.state = ParseState::FindSync1;
            unsafe { BODY_DELIVERED += 1; }
            Ok(Some(()))
        }
    }

    // @harness ids=C06,C01 tier=quick kind=proof stubs=1 units=link::parser::Parser::parse_impl,link::parser::Parser::parse timeout=600 note="Close mode, any 10 bytes from FindSync1 (parse_body by contract): a frame is delivered only through parse_body, iff start bytes, length and header CRC are right; the delivered header is the transmitted one; len>5 waits in ReadBody with trailer_len; anything else is an error"
    #[kani::proof]
    #[kani::unwind(7)]
    #[kani::stub(Parser::parse_body, Parser::stub_parse_body)]
    #[kani::stub(crate::link::crc::calc_crc_with_0564, crate::link::crc::verif_kani_c06_crc::stub_calc_crc_with_0564)]
    fn vk_c06_parse_impl_ten_bytes() {
        let b: [u8; 10] = kani::any();
        crcv::hcrc_init(b.as_ptr());
        let mut p = Parser::new(LinkErrorMode::Close);
        let mut payload = FramePayload::new();
        let mut c = ReadCursor::new(&b);
        unsafe { BODY_DELIVERED = 0; }
        let r = p.parse(&mut c, &mut payload);
        let good = header_ok_at(&b, 0);
        match r {
            Ok(Some(h)) => {
                assert!(good && b[2] == 5);
                assert!(unsafe { BODY_DELIVERED == 1 && BODY_LAST_T == 0 });
                assert!(c.remaining() == 0);
                assert!(h.control.to_u8() == b[3]);
                assert!(h.destination.value() == (b[4] as u16) | ((b[5] as u16) << 8));
                assert!(h.source.value() == (b[6] as u16) | ((b[7] as u16) << 8));
                assert!(matches!(p.state, ParseState::FindSync1));
                kani::cover!(true);
            }
            Ok(None) => {
                assert!(good && b[2] > 5);
                assert!(c.remaining() == 0 && unsafe { BODY_DELIVERED == 0 });
                assert!(matches!(p.state, ParseState::ReadBody(h, t) if t == spec::trailer_len((b[2] - 5) as usize) && h.control.to_u8() == b[3]));
                kani::cover!(true);
            }
            Err(_) => {
                assert!(!good);
                assert!(unsafe { BODY_DELIVERED == 0 });
                kani::cover!(b[0] == 0x05 && b[1] == 0x64 && !good);
            }
        }
    }

    // @harness ids=C06,C01 tier=quick kind=proof stubs=1 units=link::parser::Parser::parse_impl timeout=600 note="ReadBody arm: parse_body is called with the state's trailer length and the header stored by parse_header is the one delivered"
    #[kani::proof]
    #[kani::unwind(7)]
    #[kani::stub(Parser::parse_body, Parser::stub_parse_body)]
    #[kani::stub(crate::link::crc::calc_crc_with_0564, crate::link::crc::verif_kani_c06_crc::stub_calc_crc_with_0564)]
    fn vk_c06_parse_impl_body_arm() {
        let b: [u8; 24] = kani::any();
        crcv::hcrc_init(b.as_ptr());
        let mut p = Parser::new(any_mode());
        let hdr = Header::new(ControlField::from(kani::any()), AnyAddress::from(kani::any()), AnyAddress::from(kani::any()));
        let d: u8 = kani::any();
        kani::assume(d >= 1 && d <= 250);
        let t = spec::trailer_len(d as usize);
        p.state = ParseState::ReadBody(hdr, t);
        let mut payload = FramePayload::new();
        let mut c = ReadCursor::new(&b);
        unsafe { BODY_DELIVERED = 0; BODY_LAST_T = 0; }
        let r = p.parse_impl(&mut c, &mut payload);
        match r {
            Ok(Some(h)) => {
                assert!(t <= 24 && h == hdr && c.remaining() == 24 - t);
                assert!(unsafe { BODY_DELIVERED == 1 && BODY_LAST_T == t });
                kani::cover!(true);
            }
            Ok(None) => {
                assert!(t > 24 && c.remaining() == 24 && unsafe { BODY_DELIVERED == 0 });
                assert!(matches!(p.state, ParseState::ReadBody(h, t2) if t2 == t && h == hdr));
                kani::cover!(true);
            }
            Err(_) => {
                assert!(t <= 24 && unsafe { BODY_DELIVERED == 0 });
                kani::cover!(true);
            }
        }
    }

    // Contract stub for Parser::parse_impl used to verify the discard loop of Parser::parse by itself.
    // Contract (each clause is a postcondition proved on the real parse_impl/parse_sync1 above, or weaker):
    // consumes k <= remaining bytes; returns any of Ok(Some)/Ok(None)/Err; on an empty cursor in FindSync1 returns
    // Ok(None). Ghost log: cursor position and parser state at entry of every attempt.
    pub(crate) static mut IMPL_LOG: [(usize, u8); 12] = [(0, 0); 12];
    pub(crate) static mut IMPL_CALLS: usize = 0;
    fn state_tag(s: &ParseState) -> u8 {
        match s { ParseState::FindSync1 => 0, ParseState::FindSync2 => 1, ParseState::ReadHeader => 2, ParseState::ReadBody(_, _) => 3 }
    }
    impl Parser {
        pub(crate) fn stub_parse_impl(&mut self, cursor: &mut ReadCursor, payload: &mut FramePayload) -> Result<Option<Header>, ParseError> {
            unsafe {
                if IMPL_CALLS < 12 { IMPL_LOG[IMPL_CALLS] = (cursor.position(), state_tag(&self.state)); }
                IMPL_CALLS += 1;
            }
            if cursor.is_empty() && matches!(self.state, ParseState::FindSync1) {
                return Ok(None);
            }
            let k: usize = kani::any();
            kani::assume(k <= cursor.remaining());
            let _ = cursor.read_bytes(k);
            let st: u8 = kani::any();
            self.state = match st { 0 => ParseState::FindSync1, 1 => ParseState::FindSync2, _ => ParseState::ReadHeader };
            match kani::any::<u8>() {
                0 => Ok(None),
                1 => Ok(Some(Header::new(ControlField::from(kani::any()), AnyAddress::from(kani::any()), AnyAddress::from(kani::any())))),
                _ => Err(ParseError::BadFrame(FrameError::BadHeaderCrc)),
            }
        }
    }

    // @harness ids=C06,C01 tier=quick kind=proof units=link::parser::Parser::parse_impl timeout=300 stubs=1 note="empty cursor: FindSync1/FindSync2/ReadHeader return Ok(None) without change (clause used by the parse_impl contract stub)"
    #[kani::proof]
    #[kani::unwind(3)]
    #[kani::stub(Parser::parse_body, Parser::stub_parse_body)]
    fn vk_c06_parse_impl_empty() {
        let mut p = Parser::new(any_mode());
        let st: u8 = kani::any();
        p.state = match st { 0 => ParseState::FindSync1, 1 => ParseState::FindSync2, _ => ParseState::ReadHeader };
        let mut payload = FramePayload::new();
        let b: [u8; 0] = [];
        let mut c = ReadCursor::new(&b);
        let r = p.parse_impl(&mut c, &mut payload);
        assert!(matches!(r, Ok(None)));
        assert!(state_tag(&p.state) == st.min(2));
        kani::cover!(st == 0);
    }

    // @harness ids=C06,C01 tier=quick kind=bounded stubs=1 bound="cursor of 4 bytes (loop body is length-independent; see DESIGN L-C06b)" units=link::parser::Parser::parse timeout=600 note="discard loop contract: the result is the first non-error attempt; after a failed attempt that began in FindSync1 exactly one byte is skipped; after a failed attempt that RESUMED a partial frame (state carried from an earlier read) no unexamined byte is skipped: scanning restarts at the first byte of this read; every retry starts in FindSync1; never an error; terminates"
    #[kani::proof]
    #[kani::unwind(8)]
    #[kani::stub(Parser::parse_impl, Parser::stub_parse_impl)]
    fn vk_c06_parse_discard_loop() {
        let b: [u8; 4] = kani::any();
        let mut p = Parser::new(LinkErrorMode::Discard);
        let st: u8 = kani::any();
        p.state = match st { 0 => ParseState::FindSync1, 1 => ParseState::FindSync2, _ => ParseState::ReadHeader };
        let mut payload = FramePayload::new();
        let mut c = ReadCursor::new(&b);
        unsafe { IMPL_CALLS = 0; }
        let r = p.parse(&mut c, &mut payload);
        assert!(r.is_ok());
        let calls = unsafe { IMPL_CALLS };
        assert!(calls >= 1 && calls <= 6);
        assert!(unsafe { IMPL_LOG[0].0 == 0 && IMPL_LOG[0].1 == st.min(2) });
        let mut i = 1;
        while i < calls {
            let (pos, tag) = unsafe { IMPL_LOG[i] };
            let (ppos, ptag) = unsafe { IMPL_LOG[i - 1] };
            assert!(tag == 0);
            // Bytes that were never examined as a possible frame start must not be skipped - unless they cannot start a
            // frame (anything but 0x05): a scanner that jumps ahead to the next 0x05 is as good as one that moves by one.
            let first_unexamined = if ptag == 0 {
                // the failed attempt started at ppos as a fresh frame: ppos itself has been examined
                if ppos < 4 { ppos + 1 } else { 4 }
            } else {
                // the failed attempt resumed a frame begun in an earlier read: its first byte is already gone, byte `ppos`
                // of this read has never been examined as a frame start
                ppos
            };
            assert!(pos >= first_unexamined && pos <= 4);
            let mut j = first_unexamined;
            while j < pos {
                assert!(b[j] != 0x05);
                j += 1;
            }
            i += 1;
        }
        kani::cover!(calls == 5);
        kani::cover!(calls == 1);
    }

    // @harness ids=C06,C01 tier=quick kind=proof stubs=1 units=link::parser::Parser::parse timeout=300 note="Close mode: exactly one attempt, its result returned unchanged (errors end the session)"
    #[kani::proof]
    #[kani::unwind(3)]
    #[kani::stub(Parser::parse_impl, Parser::stub_parse_impl)]
    fn vk_c06_parse_close_mode() {
        let b: [u8; 4] = kani::any();
        let mut p = Parser::new(LinkErrorMode::Close);
        let mut payload = FramePayload::new();
        let mut c = ReadCursor::new(&b);
        unsafe { IMPL_CALLS = 0; }
        let r = p.parse(&mut c, &mut payload);
        assert!(unsafe { IMPL_CALLS } == 1);
        kani::cover!(r.is_err());
        kani::cover!(matches!(r, Ok(Some(_))));
    }


    // ---- setters/getters for other fragments (no logic)
    pub(crate) fn set_state_any(p: &mut Parser) -> u8 {
        let tag: u8 = kani::any();
        kani::assume(tag <= 3);
        p.state = match tag {
            0 => ParseState::FindSync1,
            1 => ParseState::FindSync2,
            2 => ParseState::ReadHeader,
            _ => {
                let d: u8 = kani::any();
                kani::assume(d <= 250);
                ParseState::ReadBody(Header::new(ControlField::from(kani::any()), AnyAddress::from(kani::any()), AnyAddress::from(kani::any())), spec::trailer_len(d as usize))
            }
        };
        tag
    }
    pub(crate) fn state_tag_of(p: &Parser) -> u8 { state_tag(&p.state) }

    // @harness ids=C06,C01 tier=quick kind=proof units=link::parser::Parser::reset,link::parser::Parser::new timeout=120 note="reset returns the parser to FindSync1 from any state (a new session never inherits a partial frame)"
    #[kani::proof]
    fn vk_c06_parser_reset() {
        let mut p = Parser::new(any_mode());
        assert!(state_tag_of(&p) == 0);
        let tag = set_state_any(&mut p);
        p.reset();
        assert!(state_tag_of(&p) == 0);
        kani::cover!(tag == 3);
    }

    // ---- contract stub for Parser::parse used by the Reader::read_frame harness: consumes any k <= remaining bytes,
    // returns any result, leaves any state (over-approximates the proved contracts of parse/parse_impl). Logs, for
    // every call, the window of bytes it was given (length, first and last byte AT CALL TIME) and the state at entry.
    pub(crate) static mut PARSE_LOG: [(usize, u8, u8, u8); 8] = [(0, 0, 0, 0); 8];
    pub(crate) static mut PARSE_RES: [(u8, usize); 8] = [(0, 0); 8];
    pub(crate) static mut PARSE_CALLS: usize = 0;
    pub(crate) static mut PARSE_LEFT: [u8; 8] = [0; 8];
    impl Parser {
        pub(crate) fn stub_parse(&mut self, cursor: &mut ReadCursor, payload: &mut FramePayload) -> Result<Option<Header>, ParseError> {
            let n = unsafe { PARSE_CALLS };
            let remaining = cursor.remaining();
            let mut peek = *cursor;
            let first = peek.read_u8().unwrap_or(0);
            let last = if remaining >= 2 { let _ = peek.read_bytes(remaining - 2); peek.read_u8().unwrap_or(0) } else { first };
            let k: usize = kani::any();
            kani::assume(k <= remaining);
            let _ = cursor.read_bytes(k);
            let res: u8 = kani::any();
            kani::assume(res <= 2);
            if n < 8 {
                unsafe { PARSE_LOG[n] = (remaining, first, last, state_tag(&self.state)); PARSE_RES[n] = (res, k); }
            }
            unsafe { PARSE_CALLS += 1; }
            let left = set_state_any(self);
            if n < 8 { unsafe { PARSE_LEFT[n] = left; } }
            match res {
                0 => Ok(None),
                1 => Ok(Some(Header::new(ControlField::from(kani::any()), AnyAddress::from(kani::any()), AnyAddress::from(kani::any())))),
                _ => Err(ParseError::BadFrame(FrameError::BadBodyCrc)),
            }
        }
    }
    pub(crate) fn parse_calls() -> usize { unsafe { PARSE_CALLS } }
    pub(crate) fn parse_log(i: usize) -> (usize, u8, u8, u8) { unsafe { PARSE_LOG[i] } }
    pub(crate) fn parse_res(i: usize) -> (u8, usize) { unsafe { PARSE_RES[i] } }
    pub(crate) fn parse_log_reset() { unsafe { PARSE_CALLS = 0; } }
    pub(crate) fn parse_left(i: usize) -> u8 { unsafe { PARSE_LEFT[i] } }
