    use crate::verif_spec as spec;
    use crate::link::crc::verif_kani_c06_crc as crcv;
    use crate::link::function::Function;

    // @harness ids=C06,C01 tier=quick kind=proof units=link::parser::Parser::calc_trailer_length timeout=120 note="== n + 2*ceil(n/16) for all 256 lengths"
    #[kani::proof]
    fn vk_c06_trailer_length() {
        let d: u8 = kani::any();
        assert_eq!(Parser::calc_trailer_length(d), spec::trailer_len(d as usize));
        kani::cover!(d == 250);
        kani::cover!(d == 0);
    }

    fn any_mode() -> LinkErrorMode {
        if kani::any() { LinkErrorMode::Close } else { LinkErrorMode::Discard }
    }

    // @harness ids=C06,C01 tier=quick kind=proof units=link::parser::Parser::parse_sync1,link::parser::Parser::parse_sync2 timeout=120 note="start bytes compared exactly: state advances iff byte is 0x05 / 0x64, one byte consumed, else error"
    #[kani::proof]
    fn vk_c06_parse_sync() {
        let buf: [u8; 2] = kani::any();
        let n: usize = kani::any();
        kani::assume(n <= 2);
        let mut p = Parser::new(any_mode());
        let mut c = ReadCursor::new(&buf[..n]);
        let r = p.parse_sync1(&mut c);
        if n == 0 {
            assert!(r.is_ok() && matches!(p.state, ParseState::FindSync1) && c.remaining() == 0);
        } else if buf[0] == 0x05 {
            assert!(r.is_ok() && matches!(p.state, ParseState::FindSync2) && c.remaining() == n - 1);
            let r2 = p.parse_sync2(&mut c);
            if n == 1 {
                assert!(r2.is_ok() && matches!(p.state, ParseState::FindSync2));
            } else if buf[1] == 0x64 {
                assert!(r2.is_ok() && matches!(p.state, ParseState::ReadHeader) && c.remaining() == 0);
                kani::cover!(true);
            } else {
                assert!(r2.is_err() && !matches!(p.state, ParseState::ReadHeader | ParseState::ReadBody(_, _)));
            }
        } else {
            assert!(r.is_err() && matches!(p.state, ParseState::FindSync1));
            kani::cover!(true);
        }
    }

    // @harness ids=C06,C01,C07 tier=quick kind=proof units=link::parser::Parser::parse_header,link::header::ControlField::from,link::header::AnyAddress::from timeout=300 note="all 2^64 header bytes: ReadBody(h,t) iff len>=5 and CRC == calc_crc_with_0564(first 6 bytes); h = exactly the transmitted control/dest/src; t = trailer_len(len-5)"
    #[kani::proof]
    #[kani::unwind(8)]
    fn vk_c06_parse_header() {
        let buf: [u8; 9] = kani::any();
        let n: usize = kani::any();
        kani::assume(n <= 9);
        let mut p = Parser::new(any_mode());
        p.state = ParseState::ReadHeader;
        let mut c = ReadCursor::new(&buf[..n]);
        let r = p.parse_header(&mut c);
        if n < 8 {
            assert!(r.is_ok() && matches!(p.state, ParseState::ReadHeader) && c.remaining() == n);
            kani::cover!(n == 7);
            return;
        }
        let len = buf[0];
        let crc_rx = (buf[6] as u16) | ((buf[7] as u16) << 8);
        let intact = len >= 5 && crc_rx == crate::link::crc::calc_crc_with_0564(&buf[0..6]);
        match p.state {
            ParseState::ReadBody(h, t) => {
                assert!(intact && r.is_ok());
                assert_eq!(c.remaining(), n - 8);
                assert_eq!(t, spec::trailer_len((len - 5) as usize));
                // exactly the transmitted fields
                assert_eq!(h.control.to_u8(), buf[1]);
                assert_eq!(h.control.master, buf[1] & 0x80 != 0);
                assert_eq!(h.control.fcb, buf[1] & 0x20 != 0);
                assert_eq!(h.control.fcv, buf[1] & 0x10 != 0);
                assert_eq!(h.control.func.to_u8(), buf[1] & 0x4F);
                assert_eq!(h.destination.value(), (buf[2] as u16) | ((buf[3] as u16) << 8));
                assert_eq!(h.source.value(), (buf[4] as u16) | ((buf[5] as u16) << 8));
                kani::cover!(len == 255);
                kani::cover!(len == 5);
            }
            _ => {
                assert!(!intact);
                assert!(r.is_err());
                kani::cover!(len >= 5);
                kani::cover!(len < 5);
            }
        }
    }

    // @harness ids=C06,C07 tier=quick kind=proof units=link::header::ControlField::to_u8,link::header::ControlField::from,link::function::Function::from,link::function::Function::to_u8,link::header::AnyAddress::from,link::header::AnyAddress::value timeout=120 note="control byte and address codecs are mutually inverse on the full domain; address classes are the standard's"
    #[kani::proof]
    fn vk_c06_control_and_address_codecs() {
        let b: u8 = kani::any();
        assert_eq!(ControlField::from(b).to_u8(), b);
        let f = Function::from(b & 0x4F);
        assert_eq!(f.to_u8(), b & 0x4F);
        let a: u16 = kani::any();
        let any = AnyAddress::from(a);
        assert_eq!(any.value(), a);
        match any {
            AnyAddress::Endpoint(e) => assert!(a < 0xFFF0 && e.raw_value() == a),
            AnyAddress::Broadcast(_) => assert!(a >= 0xFFFD),
            AnyAddress::SelfAddress => assert!(a == 0xFFFC),
            AnyAddress::Reserved(x) => assert!(x == a && a >= 0xFFF0 && a < 0xFFFC),
        }
        kani::cover!(a == 0xFFFB);
        kani::cover!(b == 0xFF);
    }

    /// parse_body for user-data length N (T = trailer_len(N), TX = T + 3 trailing bytes of a following frame);
    /// CRC behind the logged contract stub
    fn body_contract<const N: usize, const T: usize, const TX: usize>() {
        assert!(T == spec::trailer_len(N) && TX == T + 3);
        let all: [u8; TX] = kani::any();
        let mut p = Parser::new(any_mode());
        let hdr = Header::new(ControlField::from(kani::any()), AnyAddress::from(kani::any()), AnyAddress::from(kani::any()));
        p.state = ParseState::ReadBody(hdr, T);
        let mut payload = FramePayload::new();
        payload.length = kani::any();
        kani::assume(payload.length <= 250);
        let mut c = ReadCursor::new(&all);
        crcv::crc_log_reset();
        let r = p.parse_body(T, &mut c, &mut payload);
        let nblocks = (N + 15) / 16;
        let calls = crcv::crc_calls();
        assert!(calls <= nblocks);
        // every call was made on exactly the data bytes of block k, in order, once each
        let mut all_match = true;
        let mut k = 0;
        while k < nblocks {
            let dk = if N - 16 * k >= 16 { 16 } else { N - 16 * k };
            if k < calls {
                let (ptr, len, res) = crcv::crc_log(k);
                assert!(ptr == all[18 * k..].as_ptr());
                assert_eq!(len, dk);
                let rx = (all[18 * k + dk] as u16) | ((all[18 * k + dk + 1] as u16) << 8);
                if res != rx {
                    all_match = false;
                    // first mismatch stops the frame: no further block is looked at
                    assert_eq!(calls, k + 1);
                }
            }
            k += 1;
        }
        let intact = all_match && calls == nblocks;
        match r {
            Ok(Some(())) => {
                assert!(intact);
                assert_eq!(c.remaining(), 3);
                assert!(matches!(p.state, ParseState::FindSync1));
                assert_eq!(payload.get().len(), N);
                let mut i = 0;
                while i < N {
                    assert_eq!(payload.get()[i], all[(i / 16) * 18 + (i % 16)]);
                    i += 1;
                }
                kani::cover!(true);
            }
            Ok(None) => assert!(false),
            Err(_) => {
                assert!(!intact);
                kani::cover!(true);
            }
        }
    }

    fn short_contract<const T: usize, const AVAIL: usize>() {
        assert!(AVAIL < T);
        let all: [u8; AVAIL] = kani::any();
        let mut p = Parser::new(any_mode());
        let hdr = Header::new(ControlField::from(kani::any()), AnyAddress::from(kani::any()), AnyAddress::from(kani::any()));
        p.state = ParseState::ReadBody(hdr, T);
        let mut payload = FramePayload::new();
        let mut c = ReadCursor::new(&all);
        crcv::crc_log_reset();
        let r = p.parse_body(T, &mut c, &mut payload);
        assert!(matches!(r, Ok(None)));
        assert!(c.remaining() == AVAIL && crcv::crc_calls() == 0);
        assert!(matches!(p.state, ParseState::ReadBody(_, t2) if t2 == T));
        kani::cover!(true);
    }

    // @harness ids=C06,C01 tier=quick kind=bounded bound="(T,avail) in {(282,281),(282,0),(3,2),(21,18)}; symbolic slice lengths exhaust CBMC memory" units=link::parser::Parser::parse_body timeout=300 note="fewer bytes than the trailer: Ok(None), nothing consumed, state kept, CRC not called"
    #[kani::proof]
    #[kani::unwind(20)]
    #[kani::stub(crate::link::crc::calc_crc, crate::link::crc::verif_kani_c06_crc::stub_calc_crc)]
    fn vk_c06_parse_body_short() {
        short_contract::<282, 281>();
        short_contract::<282, 0>();
        short_contract::<3, 2>();
        short_contract::<21, 18>();
    }

    macro_rules! body_harness {
        ($name:ident, $n:expr, $t:expr) => {
            #[kani::proof]
            #[kani::unwind(252)]
            #[kani::stub(crate::link::crc::calc_crc, crate::link::crc::verif_kani_c06_crc::stub_calc_crc)]
            fn $name() {
                body_contract::<$n, $t, { $t + 3 }>();
            }
        };
    }

    // @harness ids=C06,C01 tier=quick kind=proof units=link::parser::Parser::parse_body timeout=120 note="N=0 (header-only frame): delivered at once with an empty payload, nothing consumed"
    #[kani::proof]
    #[kani::unwind(4)]
    fn vk_c06_parse_body_n0() {
        let all: [u8; 3] = kani::any();
        let mut p = Parser::new(any_mode());
        let hdr = Header::new(ControlField::from(kani::any()), AnyAddress::from(kani::any()), AnyAddress::from(kani::any()));
        p.state = ParseState::ReadBody(hdr, 0);
        let mut payload = FramePayload::new();
        payload.length = kani::any();
        kani::assume(payload.length <= 250);
        let mut c = ReadCursor::new(&all);
        let r = p.parse_body(0, &mut c, &mut payload);
        assert!(matches!(r, Ok(Some(()))));
        assert!(c.remaining() == 3 && payload.get().len() == 0 && matches!(p.state, ParseState::FindSync1));
        kani::cover!(true);
    }
    // @harness ids=C06,C01 tier=quick kind=proof stubs=1 units=link::parser::Parser::parse_body,link::parser::FramePayload::push timeout=900 note="N=1"
    body_harness!(vk_c06_parse_body_n1, 1, 3);
    // @harness ids=C06,C01 tier=quick kind=proof stubs=1 units=link::parser::Parser::parse_body,link::parser::FramePayload::push timeout=900 note="N=16"
    body_harness!(vk_c06_parse_body_n16, 16, 18);
    // @harness ids=C06,C01 tier=quick kind=proof stubs=1 units=link::parser::Parser::parse_body,link::parser::FramePayload::push timeout=900 note="N=17"
    body_harness!(vk_c06_parse_body_n17, 17, 21);
    // @harness ids=C06,C01 tier=quick kind=proof stubs=1 units=link::parser::Parser::parse_body,link::parser::FramePayload::push timeout=900 note="N=33"
    body_harness!(vk_c06_parse_body_n33, 33, 39);
    // @harness ids=C06,C01 tier=quick kind=proof stubs=1 units=link::parser::Parser::parse_body,link::parser::FramePayload::push timeout=900 note="N=249"
    body_harness!(vk_c06_parse_body_n249, 249, 281);
    // @harness ids=C06,C01 tier=quick kind=proof stubs=1 units=link::parser::Parser::parse_body,link::parser::FramePayload::push timeout=900 note="N=250"
    body_harness!(vk_c06_parse_body_n250, 250, 282);
