    // @harness ids=C06,C01 tier=quick kind=proof units=link::reader::read_buffer_size,link::reader::num_link_frames timeout=120 note="for every legal fragment size 249..=2048: buffer = ceil(f/249)*292+1 >= 293, so a full buffer always holds one whole maximum frame"
    #[kani::proof]
    fn vk_c06_read_buffer_size() {
        let f: usize = kani::any();
        kani::assume(f >= 249 && f <= 2048);
        let n = num_link_frames(f);
        assert!(n * 249 >= f && (n - 1) * 249 < f);
        assert_eq!(read_buffer_size(f), n * 292 + 1);
        assert!(read_buffer_size(f) >= 293);
        kani::cover!(f == 2048);
        kani::cover!(f == 249);
    }

    fn any_buffer<const SZ: usize>() -> ReadBuffer {
        let data: [u8; SZ] = kani::any();
        let mut rb = ReadBuffer::new(SZ);
        rb.buffer.copy_from_slice(&data);
        rb.begin = kani::any();
        rb.end = kani::any();
        kani::assume(rb.begin <= rb.end && rb.end <= SZ);
        rb
    }

    // @harness ids=C06,C01 tier=quick kind=bounded bound="buffer capacity 12 (code is capacity-independent)" units=link::reader::ReadBuffer::shift_unread_bytes,link::reader::ReadBuffer::num_bytes_unread,link::reader::ReadBuffer::advance_read,link::reader::ReadBuffer::advance_write,link::reader::ReadBuffer::reset timeout=600 note="invariant begin<=end<=len kept; shift moves exactly the unread bytes to the front unchanged; advance/reset arithmetic"
    #[kani::proof]
    #[kani::unwind(14)]
    fn vk_c06_read_buffer_ops() {
        const SZ: usize = 12;
        let mut rb = any_buffer::<SZ>();
        let before: [u8; SZ] = { let mut a = [0u8; SZ]; a.copy_from_slice(&rb.buffer); a };
        let (b0, e0) = (rb.begin, rb.end);
        assert_eq!(rb.num_bytes_unread(), e0 - b0);
        rb.shift_unread_bytes();
        assert!(rb.begin == 0 && rb.end == e0 - b0);
        let mut i = 0;
        while i < SZ {
            if i < e0 - b0 { assert_eq!(rb.buffer[i], before[b0 + i]); }
            i += 1;
        }
        // advance_read by a consumed count (<= unread) keeps the invariant
        let k: usize = kani::any();
        kani::assume(k <= rb.num_bytes_unread());
        rb.advance_read(k);
        assert!(rb.begin <= rb.end && rb.num_bytes_unread() == e0 - b0 - k);
        let w: usize = kani::any();
        kani::assume(w <= SZ - rb.end);
        rb.advance_write(w);
        assert!(rb.end <= SZ);
        assert_eq!(rb.is_full(), rb.end == SZ);
        kani::cover!(b0 > 0 && e0 == SZ && k > 0);
        rb.reset();
        assert!(rb.begin == 0 && rb.end == 0);
    }

    // @harness ids=C06,C01 tier=quick kind=proof units=link::reader::Reader::reset,link::reader::Reader::new timeout=300 note="Reader::reset (called between sessions and by Layer::reset) empties the read buffer AND returns the parser to FindSync1 from any state: bytes or a partial frame of an old session never leak into the next one"
    #[kani::proof]
    fn vk_c06_reader_reset() {
        use crate::link::parser::verif_kani_c06_parser as pv;
        let mode = if kani::any() { LinkErrorMode::Close } else { LinkErrorMode::Discard };
        let modes = if kani::any() { LinkModes::stream(mode) } else { LinkModes::datagram(mode) };
        let mut r = Reader::new(modes, 249);
        assert!(r.buffer.begin == 0 && r.buffer.end == 0 && r.buffer.buffer.len() == 293);
        let tag = pv::set_state_any(&mut r.parser);
        r.buffer.begin = kani::any();
        r.buffer.end = kani::any();
        kani::assume(r.buffer.begin <= r.buffer.end && r.buffer.end <= 293);
        r.reset();
        assert!(pv::state_tag_of(&r.parser) == 0);
        assert!(r.buffer.begin == 0 && r.buffer.end == 0 && r.buffer.num_bytes_unread() == 0);
        kani::cover!(tag == 2);
    }

    // ---------------------------------------------------------------- Reader::read_frame (async) on the harness physical layer
    use crate::util::phys::verif_kani_io as io;
    use crate::link::parser::verif_kani_c06_parser as pv;

    /// Two reads of A and B bytes, then the peer closes. The stream is the identity pattern stream[i] = i, so the first
    /// and last byte of every window the parser is shown ARE its stream offsets. Parser::parse behind its contract stub
    /// (consumes any number of bytes, any result, any state).
    fn read_frame_contract<const A: usize, const B: usize>(datagram: bool) {
        let mode = if kani::any() { LinkErrorMode::Close } else { LinkErrorMode::Discard };
        let modes = if datagram { LinkModes::datagram(mode) } else { LinkModes::stream(mode) };
        let mut r = Reader::new(modes, 249);
        let mut stream = [0u8; 64];
        let mut j = 0;
        while j < 64 { stream[j] = j as u8; j += 1; }
        unsafe { io::RX = stream; io::RX_POS = 0; io::RX_CALLS = 0; io::RX_CHUNKS[0] = A; io::RX_CHUNKS[1] = B; io::RX_NCHUNKS = 2; }
        pv::parse_log_reset();
        let mut payload = FramePayload::new();
        let mut shell = io::IoShell::new();
        let res = io::run(r.read_frame(shell.get(), &mut payload, DecodeLevel::nothing()));
        assert!(res.is_some()); // never suspends on the harness layer
        let calls = pv::parse_calls();
        assert!(calls >= 1 && calls <= 6);
        let mut consumed: usize = 0;          // stream offset of the first byte not yet consumed by the parser
        let mut i = 0;
        while i < calls {
            let (len, first, last, st) = pv::parse_log(i);
            let (rs, k) = pv::parse_res(i);
            // the parser is never called on nothing, and always up to the last byte received so far
            assert!(len >= 1);
            assert!(last as usize + 1 == A || last as usize + 1 == A + B);
            assert!(len == last as usize + 1 - first as usize);
            if datagram && i > 0 && pv::parse_res(i - 1).0 == 0 {
                // DATAGRAM MODE: the previous datagram did not yield a frame: nothing of it survives - the parser was
                // reset to FindSync1 and is shown exactly the next datagram
                assert!(st == 0);
                assert!(first as usize == A && len == B);
                consumed = A;
            } else {
                // the window starts at the first unconsumed byte of the stream: no byte skipped, none shown twice
                assert!(first as usize == consumed);
                // and the parser continues in the state it was left in (a frame that straddles two reads is not forgotten)
                if i > 0 { assert!(st == pv::parse_left(i - 1)); }
            }
            consumed += k;
            if rs != 0 { assert!(i == calls - 1); } // a frame or an error ends read_frame
            i += 1;
        }
        kani::cover!(calls >= 2 && pv::parse_res(0).0 == 0 && (if datagram { pv::parse_log(1).0 == B } else { pv::parse_log(1).0 > B }));
        kani::cover!(matches!(res, Some(Ok(_))));
    }

    // @harness ids=C06,C08,C01 tier=thorough kind=bounded stubs=1 bound="two reads of 5 and 7 bytes then EOF; Parser::parse by contract" units=link::reader::Reader::read_frame,link::reader::Reader::read_more_data,link::reader::Reader::parse_buffer timeout=3000 note="stream mode: whatever the parser consumes, it is always shown exactly the received-but-unconsumed bytes of the stream in order (splitting across reads does not change what the parser sees)"
    #[kani::proof]
    #[kani::unwind(66)]
    #[kani::stub(Parser::parse, Parser::stub_parse)]
    fn vk_c06_read_frame_stream() { read_frame_contract::<5, 7>(false); }

    // @harness ids=C06,C08,C01 tier=quick kind=bounded stubs=1 bound="two datagrams of 5 and 7 bytes then EOF; Parser::parse by contract" units=link::reader::Reader::read_frame timeout=2400 note="datagram mode: when a datagram does not yield a complete frame, buffer AND parser are reset before the next datagram: a frame split across datagrams is never stitched together"
    #[kani::proof]
    #[kani::unwind(66)]
    #[kani::stub(Parser::parse, Parser::stub_parse)]
    fn vk_c06_read_frame_datagram() { read_frame_contract::<5, 7>(true); }
