    // @harness ids=C06,C01 tier=quick kind=proof units=link::reader::read_buffer_size,link::reader::num_link_frames timeout=120 note="for every legal fragment size 249..=2048: buffer = ceil(f/249)*292+1 >= 293, so a full buffer always holds one whole maximum frame"
    #[kani::proof]
    fn vk_c06_read_buffer_size() {
        let f: usize = kani::any();
        kani::assume(f >= 249 && f <= 2048);
        let n = num_link_frames(f);
        assert!(n * 249 >= f && (n - 1) * 249 < f);
        assert_eq!(read_buffer_size(f), n * 292 + 1);
        assert!(read_buffer_size(f) >= 293);
        kani::cover!(f == 2048);
        kani::cover!(f == 249);
    }

    fn any_buffer<const SZ: usize>() -> ReadBuffer {
        let data: [u8; SZ] = kani::any();
        let mut rb = ReadBuffer::new(SZ);
        rb.buffer.copy_from_slice(&data);
        rb.begin = kani::any();
        rb.end = kani::any();
        kani::assume(rb.begin <= rb.end && rb.end <= SZ);
        rb
    }

    // @harness ids=C06,C01 tier=quick kind=bounded bound="buffer capacity 12 (code is capacity-independent)" units=link::reader::ReadBuffer::shift_unread_bytes,link::reader::ReadBuffer::num_bytes_unread,link::reader::ReadBuffer::advance_read,link::reader::ReadBuffer::advance_write,link::reader::ReadBuffer::reset timeout=600 note="invariant begin<=end<=len kept; shift moves exactly the unread bytes to the front unchanged; advance/reset arithmetic"
    #[kani::proof]
    #[kani::unwind(14)]
    fn vk_c06_read_buffer_ops() {
        const SZ: usize = 12;
        let mut rb = any_buffer::<SZ>();
        let before: [u8; SZ] = { let mut a = [0u8; SZ]; a.copy_from_slice(&rb.buffer); a };
        let (b0, e0) = (rb.begin, rb.end);
        assert_eq!(rb.num_bytes_unread(), e0 - b0);
        rb.shift_unread_bytes();
        assert!(rb.begin == 0 && rb.end == e0 - b0);
        let mut i = 0;
        while i < SZ {
            if i < e0 - b0 { assert_eq!(rb.buffer[i], before[b0 + i]); }
            i += 1;
        }
        // advance_read by a consumed count (<= unread) keeps the invariant
        let k: usize = kani::any();
        kani::assume(k <= rb.num_bytes_unread());
        rb.advance_read(k);
        assert!(rb.begin <= rb.end && rb.num_bytes_unread() == e0 - b0 - k);
        let w: usize = kani::any();
        kani::assume(w <= SZ - rb.end);
        rb.advance_write(w);
        assert!(rb.end <= SZ);
        assert_eq!(rb.is_full(), rb.end == SZ);
        kani::cover!(b0 > 0 && e0 == SZ && k > 0);
        rb.reset();
        assert!(rb.begin == 0 && rb.end == 0);
    }

    // @harness ids=C06,C01 tier=quick kind=proof units=link::reader::Reader::reset,link::reader::Reader::new timeout=300 note="Reader::reset (called between sessions and by Layer::reset) empties the read buffer AND returns the parser to FindSync1 from any state: bytes or a partial frame of an old session never leak into the next one"
    #[kani::proof]
    fn vk_c06_reader_reset() {
        use crate::link::parser::verif_kani_c06_parser as pv;
        let mode = if kani::any() { LinkErrorMode::Close } else { LinkErrorMode::Discard };
        let modes = if kani::any() { LinkModes::stream(mode) } else { LinkModes::datagram(mode) };
        let mut r = Reader::new(modes, 249);
        assert!(r.buffer.begin == 0 && r.buffer.end == 0 && r.buffer.buffer.len() == 293);
        let tag = pv::set_state_any(&mut r.parser);
        r.buffer.begin = kani::any();
        r.buffer.end = kani::any();
        kani::assume(r.buffer.begin <= r.buffer.end && r.buffer.end <= 293);
        r.reset();
        assert!(pv::state_tag_of(&r.parser) == 0);
        assert!(r.buffer.begin == 0 && r.buffer.end == 0 && r.buffer.num_bytes_unread() == 0);
        kani::cover!(tag == 2);
    }
