    use crate::verif_spec as spec;
    use crate::link::LinkErrorMode;

    fn sec_tag(s: &SecondaryState) -> u8 {
        match s { SecondaryState::NotReset => 0, SecondaryState::Reset(false) => 1, SecondaryState::Reset(true) => 2 }
    }

    fn any_layer() -> (Layer, bool, bool, u16, u8) {
        let is_master: bool = kani::any();
        let self_en: bool = kani::any();
        let local: u16 = kani::any();
        kani::assume(local < 0xFFF0);
        let mut layer = Layer::new(
            LinkModes::stream(LinkErrorMode::Close),
            249,
            if is_master { EndpointType::Master } else { EndpointType::Outstation },
            if self_en { Feature::Enabled } else { Feature::Disabled },
            EndpointAddress::raw(local),
        );
        let sec: u8 = kani::any();
        kani::assume(sec <= 2);
        layer.secondary_state = match sec { 0 => SecondaryState::NotReset, 1 => SecondaryState::Reset(false), _ => SecondaryState::Reset(true) };
        (layer, is_master, self_en, local, sec)
    }

    // @harness ids=C07,C01 tier=quick kind=proof units=link::layer::Layer::process_header timeout=300 note="every control byte x destination x source x role x self-address feature x secondary state: delivery, reply, reply address and FCB state equal the standard's decision table; nothing else changes"
    #[kani::proof]
    fn vk_c07_process_header() {
        let (mut layer, is_master, self_en, local, sec) = any_layer();
        let (ctrl, dst, src): (u8, u16, u16) = (kani::any(), kani::any(), kani::any());
        let header = Header::new(ControlField::from(ctrl), AnyAddress::from(dst), AnyAddress::from(src));
        let (info, reply) = layer.process_header(header, PhysAddr::None);
        let d = spec::link_decide(ctrl, dst, src, is_master, self_en, local, sec);
        // delivery
        match info {
            None => assert!(d.deliver == 0),
            Some(fi) => {
                assert!(d.deliver != 0);
                assert!(fi.source.raw_value() == src);
                assert!(fi.phys_addr == PhysAddr::None);
                match fi.frame_type {
                    FrameType::Data => assert!(d.deliver == 1),
                    FrameType::LinkStatusRequest => assert!(d.deliver == 2),
                    FrameType::LinkStatusResponse => assert!(d.deliver == 3),
                }
                match fi.broadcast {
                    None => assert!(d.broadcast == 0),
                    Some(BroadcastConfirmMode::Optional) => assert!(d.broadcast == 1),
                    Some(BroadcastConfirmMode::Mandatory) => assert!(d.broadcast == 2),
                    Some(BroadcastConfirmMode::NotRequired) => assert!(d.broadcast == 3),
                }
            }
        }
        // reply: never to a broadcast, always to the sender
        match reply {
            None => assert!(d.reply == 0),
            Some(r) => {
                assert!(dst < 0xFFFD);
                assert!(r.address.raw_value() == src);
                match r.function {
                    Function::SecAck => assert!(d.reply == 1),
                    Function::SecLinkStatus => assert!(d.reply == 2),
                    _ => assert!(false),
                }
                // the header that is actually transmitted
                let h = layer.get_header(r);
                assert!(h.control.master == is_master && !h.control.fcb && !h.control.fcv);
                assert!(h.destination.value() == src && h.source.value() == local);
            }
        }
        assert!(sec_tag(&layer.secondary_state) == d.sec);
        // frame: configuration untouched
        assert!(layer.local_address.raw_value() == local);
        assert!(layer.self_address.is_enabled() == self_en);
        assert!(layer.endpoint_type.dir_bit() == is_master);
        kani::cover!(d.deliver == 1 && d.reply == 1);
        kani::cover!(d.deliver == 1 && d.broadcast == 2 && d.reply == 0);
        kani::cover!(d.deliver == 2);
        kani::cover!(d.deliver == 3);
        kani::cover!(d.deliver == 0 && d.reply == 1 && d.sec == 2 && sec == 0);
        kani::cover!(d.deliver == 0 && d.reply == 1 && sec != 0 && d.sec == sec);
    }

    // @harness ids=C07,C01 tier=quick kind=proof units=link::layer::Layer::format_reply,link::layer::Layer::get_header,link::layer::Layer::reset timeout=300 note="the reply bytes are the fixed-size header frame of get_header(reply); reset returns the FCB state to NotReset"
    #[kani::proof]
    #[kani::unwind(12)]
    fn vk_c07_format_reply_and_reset() {
        let (mut layer, is_master, _self_en, local, _sec) = any_layer();
        let to: u16 = kani::any();
        kani::assume(to < 0xFFF0);
        let ack: bool = kani::any();
        let reply = Reply::new(EndpointAddress::raw(to), if ack { Function::SecAck } else { Function::SecLinkStatus });
        let h = layer.get_header(reply);
        let mut expect = [0u8; 10];
        format_header_fixed_size(h, &mut expect);
        let got = layer.format_reply(h);
        assert!(got.len() == 10);
        let mut i = 0;
        while i < 10 { assert!(got[i] == expect[i]); i += 1; }
        assert!(expect[3] == (if is_master { 0x80 } else { 0 }) | (if ack { 0x00 } else { 0x0B }));
        assert!(expect[4] == (to & 0xFF) as u8 && expect[5] == (to >> 8) as u8);
        assert!(expect[6] == (local & 0xFF) as u8 && expect[7] == (local >> 8) as u8);
        layer.reset();
        assert!(sec_tag(&layer.secondary_state) == 0);
        kani::cover!(ack && is_master);
    }
