    // C20 support (no harness): `LinkError` is a public type in a crate-private module, so the binding crate cannot
    // name or construct it, yet it is the payload of the public `TaskError::Link`. A trait impl is visible across
    // crates, so the C20 harnesses in ffi/dnp3-ffi obtain a value with `TaskError::Link(kani::any())`.
    impl kani::Arbitrary for LinkError {
        fn any() -> Self {
            match kani::any::<u8>() % 5 {
                0 => LinkError::Stdio(std::io::ErrorKind::ConnectionReset),
                1 => LinkError::Stdio(std::io::ErrorKind::Other),
                2 => LinkError::BadFrame(FrameError::BadLength(kani::any())),
                3 => LinkError::BadFrame(FrameError::BadBodyCrc),
                _ => LinkError::BadLogic(LogicError::BadRead),
            }
        }
    }
