    use crate::verif_spec as spec;

    /// bitwise reference over a slice (harness-side fold of the spec step)
    pub(crate) fn spec_fold(mut acc: u16, s: &[u8]) -> u16 {
        let mut i = 0;
        while i < s.len() {
            acc = spec::crc_byte_step(acc, s[i]);
            i += 1;
        }
        acc
    }

    // @harness ids=C06 tier=quick kind=proof units=link::crc::CRC_TABLE timeout=120 note="all 256 table entries equal eight bitwise polynomial steps"
    #[kani::proof]
    fn vk_c06_crc_table_is_polynomial() {
        let i: u8 = kani::any();
        assert_eq!(CRC_TABLE[i as usize], spec::crc_byte_step(0, i));
        kani::cover!(i == 255);
    }

    // @harness ids=C06,C01 tier=quick kind=proof units=link::crc::crc_increment timeout=120 note="one byte: table step == polynomial step for every accumulator and byte"
    #[kani::proof]
    fn vk_c06_crc_increment_one_byte() {
        let acc: u16 = kani::any();
        let b: u8 = kani::any();
        assert_eq!(crc_increment(acc, &[b]), spec::crc_byte_step(acc, b));
        kani::cover!(acc == 0xFFFF && b == 0x80);
    }

    // @harness ids=C06 tier=quick kind=proof units=link::crc::crc_increment timeout=120 note="GF(2) linearity of the byte step (syndrome of data^e = syndrome of e)"
    #[kani::proof]
    fn vk_c06_crc_step_linear() {
        let (a, a2): (u16, u16) = (kani::any(), kani::any());
        let (b, b2): (u8, u8) = (kani::any(), kani::any());
        assert_eq!(
            crc_increment(a ^ a2, &[b ^ b2]),
            crc_increment(a, &[b]) ^ crc_increment(a2, &[b2])
        );
        kani::cover!(a != a2 && b != b2);
    }

    // @harness ids=C06,C01 tier=quick kind=proof units=link::crc::calc_crc,link::crc::calc_crc_with_0564,link::crc::CRC_OF_0564 timeout=300 note="calc_crc = !fold(0); calc_crc_with_0564(s) = calc_crc(05 64 ++ s), any slice of length <= 8 (header use)"
    #[kani::proof]
    #[kani::unwind(10)]
    fn vk_c06_calc_crc_is_fold() {
        let data: [u8; 8] = kani::any();
        let n: usize = kani::any();
        kani::assume(n <= 8);
        let s = &data[..n];
        assert_eq!(calc_crc(s), !spec_fold(0, s));
        assert_eq!(CRC_OF_0564, spec_fold(0, &[0x05, 0x64]));
        assert_eq!(calc_crc_with_0564(s), !spec_fold(spec_fold(0, &[0x05, 0x64]), s));
        kani::cover!(n == 8);
        kani::cover!(n == 0);
    }

    // @harness ids=C06,C01 tier=quick kind=proof units=link::crc::crc_increment timeout=600 note="block use: any slice of length <= 16 equals the bitwise fold; unwinding assertion on"
    #[kani::proof]
    #[kani::unwind(18)]
    fn vk_c06_crc_increment_block16() {
        let data: [u8; 16] = kani::any();
        let n: usize = kani::any();
        kani::assume(n <= 16);
        let acc: u16 = kani::any();
        let s = &data[..n];
        assert_eq!(crc_increment(acc, s), spec_fold(acc, s));
        kani::cover!(n == 16);
    }

    // @harness ids=C06 tier=quick kind=canary units=link::crc::crc_increment timeout=120 note="must FAIL: proves the pipeline reports a failed obligation"
    #[kani::proof]
    fn vk_canary_crc() {
        let acc: u16 = kani::any();
        let b: u8 = kani::any();
        assert!(crc_increment(acc, &[b]) != 0x1234);
    }

    // ---- logged contract stub for calc_crc, used by callers whose proof would not terminate with the real CRC.
    // Contract used: "calc_crc(s) is some u16" (weaker than the proved contract `!fold(0,s)`), plus a ghost log of
    // (address, length, result) so that the caller's postcondition can say on exactly which bytes it was called.
    pub(crate) static mut CRC_LOG: [(*const u8, usize, u16); 20] = [(core::ptr::null(), 0, 0); 20];
    pub(crate) static mut CRC_CALLS: usize = 0;
    pub(crate) fn stub_calc_crc(s: &[u8]) -> u16 {
        let r: u16 = kani::any();
        unsafe {
            if CRC_CALLS < 20 {
                CRC_LOG[CRC_CALLS] = (s.as_ptr(), s.len(), r);
            }
            CRC_CALLS += 1;
        }
        r
    }
    pub(crate) fn crc_log_reset() {
        unsafe { CRC_CALLS = 0; }
    }
    pub(crate) fn crc_calls() -> usize { unsafe { CRC_CALLS } }
    pub(crate) fn crc_log(i: usize) -> (*const u8, usize, u16) { unsafe { CRC_LOG[i] } }

    // ---- position-indexed contract stub for calc_crc_with_0564: a deterministic but otherwise arbitrary function of
    // WHERE in the harness buffer the 6 header bytes start (the harness fixes the buffer contents, so "same position"
    // = "same bytes"). Used only by dispatcher harnesses; the real function is proved equal to the polynomial above.
    pub(crate) static mut HCRC_BASE: *const u8 = core::ptr::null();
    pub(crate) static mut HCRC_AT: [u16; 32] = [0; 32];
    pub(crate) fn hcrc_init(base: *const u8) {
        unsafe { HCRC_BASE = base; HCRC_AT = kani::any(); }
    }
    pub(crate) fn hcrc_at(i: usize) -> u16 { unsafe { HCRC_AT[i] } }
    pub(crate) fn stub_calc_crc_with_0564(s: &[u8]) -> u16 {
        assert!(s.len() == 6);
        let off = unsafe { s.as_ptr().offset_from(HCRC_BASE) };
        assert!(off >= 0 && off < 32);
        unsafe { HCRC_AT[off as usize] }
    }

    // ---- error detection (C06 "frames damaged by any one-, two- or three-bit error are never delivered")
    // By Verus lemma_acceptance_depends_only_on_error a damaged block is accepted iff fold(0, e_data) == e_crc, and by
    // lemma_syndrome_additive fold(0, e_data) is the XOR of the single-bit syndromes S_p = crc_increment(0, e_p).
    // S_p is evaluated here with the REAL crc_increment for every bit position p of a 16-byte block (a shorter block of
    // n bytes uses the entries of its last n bytes because leading zero bytes keep the register at 0; the 6
    // CRC-protected header bytes likewise). No set of <= 3 flipped bits in data + CRC field may satisfy the condition:
    //   1 data bit  + <= 2 CRC bits : weight(S_p) >= 3
    //   2 data bits + <= 1 CRC bit  : weight(S_p ^ S_q) >= 2
    //   3 data bits                 : S_p ^ S_q ^ S_r != 0
    //   0 data bits + 1..3 CRC bits : fold(0, 0...0) == 0 != e_crc
    fn syndrome(p: usize) -> u16 {
        let mut e = [0u8; 16];
        e[p / 8] = 1u8 << (p % 8);
        crc_increment(0, &e)
    }

    // @harness ids=C06 tier=quick kind=proof units=link::crc::crc_increment timeout=900 note="error detection, one data bit: every single-bit syndrome has weight >= 3; all-zero block has syndrome 0"
    #[kani::proof]
    #[kani::unwind(18)]
    fn vk_c06_crc_syndrome_weight1() {
        let a: usize = kani::any();
        kani::assume(a < 128);
        assert!(syndrome(a).count_ones() >= 3);
        assert!(crc_increment(0, &[0u8; 16]) == 0);
        kani::cover!(a == 127);
    }

    // @harness ids=C06 tier=quick kind=proof units=link::crc::crc_increment timeout=900 note="error detection, two data bits: S_p ^ S_q has weight >= 2 for all p != q"
    #[kani::proof]
    #[kani::unwind(18)]
    fn vk_c06_crc_syndrome_weight2() {
        let a: usize = kani::any();
        let b: usize = kani::any();
        kani::assume(a < b && b < 128);
        assert!((syndrome(a) ^ syndrome(b)).count_ones() >= 2);
        kani::cover!(a == 0 && b == 127);
    }

    // @harness ids=C06 tier=quick kind=proof units=link::crc::crc_increment timeout=900 note="error detection, three data bits: S_p ^ S_q ^ S_r != 0 for all distinct p, q, r"
    #[kani::proof]
    #[kani::unwind(18)]
    fn vk_c06_crc_syndrome_weight3() {
        let a: usize = kani::any();
        let b: usize = kani::any();
        let c: usize = kani::any();
        kani::assume(a < b && b < c && c < 128);
        assert!((syndrome(a) ^ syndrome(b) ^ syndrome(c)) != 0);
        kani::cover!(a == 0 && b == 64 && c == 127);
    }
