    use crate::verif_spec as spec;

    /// bitwise reference over a slice (harness-side fold of the spec step)
    pub(crate) fn spec_fold(mut acc: u16, s: &[u8]) -> u16 {
        let mut i = 0;
        while i < s.len() {
            acc = spec::crc_byte_step(acc, s[i]);
            i += 1;
        }
        acc
    }

    // @harness ids=C06 tier=quick kind=proof units=link::crc::CRC_TABLE timeout=120 note="all 256 table entries equal eight bitwise polynomial steps"
    #[kani::proof]
    fn vk_c06_crc_table_is_polynomial() {
        let i: u8 = kani::any();
        assert_eq!(CRC_TABLE[i as usize], spec::crc_byte_step(0, i));
        kani::cover!(i == 255);
    }

    // @harness ids=C06,C01 tier=quick kind=proof units=link::crc::crc_increment timeout=120 note="one byte: table step == polynomial step for every accumulator and byte"
    #[kani::proof]
    fn vk_c06_crc_increment_one_byte() {
        let acc: u16 = kani::any();
        let b: u8 = kani::any();
        assert_eq!(crc_increment(acc, &[b]), spec::crc_byte_step(acc, b));
        kani::cover!(acc == 0xFFFF && b == 0x80);
    }

    // @harness ids=C06 tier=quick kind=proof units=link::crc::crc_increment timeout=120 note="GF(2) linearity of the byte step (syndrome of data^e = syndrome of e)"
    #[kani::proof]
    fn vk_c06_crc_step_linear() {
        let (a, a2): (u16, u16) = (kani::any(), kani::any());
        let (b, b2): (u8, u8) = (kani::any(), kani::any());
        assert_eq!(
            crc_increment(a ^ a2, &[b ^ b2]),
            crc_increment(a, &[b]) ^ crc_increment(a2, &[b2])
        );
        kani::cover!(a != a2 && b != b2);
    }

    // @harness ids=C06,C01 tier=quick kind=proof units=link::crc::calc_crc,link::crc::calc_crc_with_0564,link::crc::CRC_OF_0564 timeout=300 note="calc_crc = !fold(0); calc_crc_with_0564(s) = calc_crc(05 64 ++ s), any slice of length <= 8 (header use)"
    #[kani::proof]
    #[kani::unwind(10)]
    fn vk_c06_calc_crc_is_fold() {
        let data: [u8; 8] = kani::any();
        let n: usize = kani::any();
        kani::assume(n <= 8);
        let s = &data[..n];
        assert_eq!(calc_crc(s), !spec_fold(0, s));
        assert_eq!(CRC_OF_0564, spec_fold(0, &[0x05, 0x64]));
        assert_eq!(calc_crc_with_0564(s), !spec_fold(spec_fold(0, &[0x05, 0x64]), s));
        kani::cover!(n == 8);
        kani::cover!(n == 0);
    }

    // @harness ids=C06,C01 tier=quick kind=proof units=link::crc::crc_increment timeout=600 note="block use: any slice of length <= 16 equals the bitwise fold; unwinding assertion on"
    #[kani::proof]
    #[kani::unwind(18)]
    fn vk_c06_crc_increment_block16() {
        let data: [u8; 16] = kani::any();
        let n: usize = kani::any();
        kani::assume(n <= 16);
        let acc: u16 = kani::any();
        let s = &data[..n];
        assert_eq!(crc_increment(acc, s), spec_fold(acc, s));
        kani::cover!(n == 16);
    }

    // @harness ids=C06 tier=quick kind=canary units=link::crc::crc_increment timeout=120 note="must FAIL: proves the pipeline reports a failed obligation"
    #[kani::proof]
    fn vk_canary_crc() {
        let acc: u16 = kani::any();
        let b: u8 = kani::any();
        assert!(crc_increment(acc, &[b]) != 0x1234);
    }

    // ---- logged contract stub for calc_crc, used by callers whose proof would not terminate with the real CRC.
    // Contract used: "calc_crc(s) is some u16" (weaker than the proved contract `!fold(0,s)`), plus a ghost log of
    // (address, length, result) so that the caller's postcondition can say on exactly which bytes it was called.
    pub(crate) static mut CRC_LOG: [(*const u8, usize, u16); 20] = [(core::ptr::null(), 0, 0); 20];
    pub(crate) static mut CRC_CALLS: usize = 0;
    pub(crate) fn stub_calc_crc(s: &[u8]) -> u16 {
        let r: u16 = kani::any();
        unsafe {
            if CRC_CALLS < 20 {
                CRC_LOG[CRC_CALLS] = (s.as_ptr(), s.len(), r);
            }
            CRC_CALLS += 1;
        }
        r
    }
    pub(crate) fn crc_log_reset() {
        unsafe { CRC_CALLS = 0; }
    }
    pub(crate) fn crc_calls() -> usize { unsafe { CRC_CALLS } }
    pub(crate) fn crc_log(i: usize) -> (*const u8, usize, u16) { unsafe { CRC_LOG[i] } }

    // ---- position-indexed contract stub for calc_crc_with_0564: a deterministic but otherwise arbitrary function of
    // WHERE in the harness buffer the 6 header bytes start (the harness fixes the buffer contents, so "same position"
    // = "same bytes"). Used only by dispatcher harnesses; the real function is proved equal to the polynomial above.
    pub(crate) static mut HCRC_BASE: *const u8 = core::ptr::null();
    pub(crate) static mut HCRC_AT: [u16; 32] = [0; 32];
    pub(crate) fn hcrc_init(base: *const u8) {
        unsafe { HCRC_BASE = base; HCRC_AT = kani::any(); }
    }
    pub(crate) fn hcrc_at(i: usize) -> u16 { unsafe { HCRC_AT[i] } }
    pub(crate) fn stub_calc_crc_with_0564(s: &[u8]) -> u16 {
        assert!(s.len() == 6);
        let off = unsafe { s.as_ptr().offset_from(HCRC_BASE) };
        assert!(off >= 0 && off < 32);
        unsafe { HCRC_AT[off as usize] }
    }
