// Spec functions for the transport function (C08), written from IEEE 1815 clause 8 (transport header: FIN = bit 7,
// FIR = bit 6, SEQUENCE = bits 5..0, modulo 64; reception rules 8.2.1.x) and the property text - not from the code.
// Intersection of Rust and Verus syntax: every arithmetic result carries an explicit `as T`.

pub fn tp_fin(b: u8) -> bool { (b & 0x80u8) != 0u8 }
pub fn tp_fir(b: u8) -> bool { (b & 0x40u8) != 0u8 }
pub fn tp_seq(b: u8) -> u8 { (b & 0x3Fu8) as u8 }

/// the transport header octet for (FIN, FIR, seq); seq is taken modulo 64
pub fn tp_header_byte(fin: bool, fir: bool, seq: u8) -> u8 {
    let a: u8 = if fin { 0x80u8 } else { 0u8 };
    let b: u8 = if fir { 0x40u8 } else { 0u8 };
    ((a | b) | (seq & 0x3Fu8)) as u8
}

/// successor of a transport sequence number, modulo 64
pub fn tp_seq_next(s: u8) -> u8 { ((((s & 0x3Fu8) as u16 + 1u16) as u16) % 64u16) as u8 }

// ---- reassembly: abstract state of the receiver
//   kind 0 = Empty (nothing in progress), 1 = Running (`len` bytes of a fragment in progress, last segment had `seq`),
//   kind 2 = Complete (`len` bytes of an assembled fragment waiting to be taken); `seq` is 0 unless kind == 1;
//   frame_id = number of fragments completed so far (mod 2^32): the id the NEXT completed fragment gets.
#[derive(Copy, Clone, PartialEq, Eq, Debug)]
pub struct AsmState {
    pub kind: u8,
    pub len: usize,
    pub seq: u8,
    pub frame_id: u32,
}

// outcome of one received segment:
//   0 = segment ignored: it contributes to no fragment; the property does not say whether what was stored before is
//       kept or cleared, so the post-state must be either `next` (= the pre-state) or Empty, with frame_id unchanged;
//   1 = dropped: whatever was in progress is discarded, nothing of this segment is kept; `next` is Empty;
//   2 = accepted, fragment still in progress: `next` is Running, stored source = the segment's source, seq = its seq;
//   3 = accepted and completes a fragment: `next` is Complete, fragment id = old frame_id, source = the segment's source.
// In outcomes 2/3 the payload is stored at offset `start` (0 for FIR, previous length otherwise).
#[derive(Copy, Clone, PartialEq, Eq, Debug)]
pub struct AsmStep {
    pub next: AsmState,
    pub outcome: u8,
    pub start: usize,
}

/// One received transport segment (`fir`,`fin`,`seq`, `plen` payload bytes; `same_info` = it carries the same link
/// source / physical address / broadcast class as the segments of the fragment in progress; `broadcast` = sent to a
/// broadcast address) against a reassembly buffer of `cap` bytes.
pub fn assembler_step(s: AsmState, cap: usize, fir: bool, fin: bool, seq: u8, same_info: bool, broadcast: bool, plen: usize) -> AsmStep {
    let empty = AsmState { kind: 0u8, len: 0usize, seq: 0u8, frame_id: s.frame_id };
    let in_progress: bool = s.kind == 1u8;
    // a broadcast request is always a single-segment fragment (IEEE 1815 4.1.1 / 10.2.2): anything else is not accepted,
    // but FIR still terminates a fragment in progress
    if broadcast && !(fir && fin) {
        if fir && in_progress {
            return AsmStep { next: empty, outcome: 1u8, start: 0usize };
        }
        return AsmStep { next: s, outcome: 0u8, start: 0usize };
    }
    if !fir {
        // a segment that is not the first one needs a fragment in progress ...
        if !in_progress {
            return AsmStep { next: s, outcome: 0u8, start: 0usize };
        }
        // ... and must be its direct successor from the same source
        if (seq & 0x3Fu8) != tp_seq_next(s.seq) || !same_info {
            return AsmStep { next: empty, outcome: 1u8, start: 0usize };
        }
    }
    // FIR restarts at offset 0 discarding what was there; otherwise continue after the bytes already buffered
    let start: usize = if fir { 0usize } else { s.len };
    if plen > cap || start > ((cap - plen) as usize) {
        // does not fit into the receiver's buffer: the fragment is lost
        return AsmStep { next: empty, outcome: 1u8, start: 0usize };
    }
    let new_len: usize = (start + plen) as usize;
    if fin {
        let next_id: u32 = (((s.frame_id as u64 + 1u64) as u64) % 4294967296u64) as u32;
        return AsmStep { next: AsmState { kind: 2u8, len: new_len, seq: 0u8, frame_id: next_id }, outcome: 3u8, start: start };
    }
    AsmStep { next: AsmState { kind: 1u8, len: new_len, seq: (seq & 0x3Fu8) as u8, frame_id: s.frame_id }, outcome: 2u8, start: start }
}
