// Spec functions for C16 (command echo comparison), written from the property text ("success only if the reply echoed every
// requested object with identical contents and status SUCCESS") and the IEEE 1815 object layouts (all multi-byte fields
// little-endian; the status octet is the last octet of g12v1 and of every g41 variation). Not written from the code.

/// g12v1 CROB: control code, count, on-time (u32 ms), off-time (u32 ms), status
pub fn enc_g12v1(code: u8, count: u8, on_time: u32, off_time: u32, status: u8) -> [u8; 11] {
    [
        code, count,
        (on_time & 0xFFu32) as u8, ((on_time >> 8u32) & 0xFFu32) as u8, ((on_time >> 16u32) & 0xFFu32) as u8, ((on_time >> 24u32) & 0xFFu32) as u8,
        (off_time & 0xFFu32) as u8, ((off_time >> 8u32) & 0xFFu32) as u8, ((off_time >> 16u32) & 0xFFu32) as u8, ((off_time >> 24u32) & 0xFFu32) as u8,
        status,
    ]
}

/// g41v1: 32-bit signed value (two's complement bits given as u32), status
pub fn enc_g41v1(bits: u32, status: u8) -> [u8; 5] {
    [(bits & 0xFFu32) as u8, ((bits >> 8u32) & 0xFFu32) as u8, ((bits >> 16u32) & 0xFFu32) as u8, ((bits >> 24u32) & 0xFFu32) as u8, status]
}

/// g41v2: 16-bit signed value (bits as u16), status
pub fn enc_g41v2(bits: u16, status: u8) -> [u8; 3] {
    [(bits & 0xFFu16) as u8, ((bits >> 8u16) & 0xFFu16) as u8, status]
}

/// g41v3: IEEE-754 single precision (bit pattern), status
pub fn enc_g41v3(bits: u32, status: u8) -> [u8; 5] {
    enc_g41v1(bits, status)
}

/// g41v4: IEEE-754 double precision (bit pattern), status
pub fn enc_g41v4(bits: u64, status: u8) -> [u8; 9] {
    [
        (bits & 0xFFu64) as u8, ((bits >> 8u64) & 0xFFu64) as u8, ((bits >> 16u64) & 0xFFu64) as u8, ((bits >> 24u64) & 0xFFu64) as u8,
        ((bits >> 32u64) & 0xFFu64) as u8, ((bits >> 40u64) & 0xFFu64) as u8, ((bits >> 48u64) & 0xFFu64) as u8, ((bits >> 56u64) & 0xFFu64) as u8,
        status,
    ]
}

/// Echo acceptance for one object header of the same group/variation/qualifier.
/// `sent`: the n_sent requested objects, each `obj_size` octets = index prefix followed by the object as it was requested;
/// `recv`: the n_recv objects of the reply header in the same layout.
/// Accept iff same number of objects and every received object is octet-for-octet the requested one (same index, identical
/// contents) and its status octet (the last one) is 0 = SUCCESS.
pub fn echo_ok(recv: &[u8], n_recv: usize, sent: &[u8], n_sent: usize, obj_size: usize) -> bool {
    if n_recv != n_sent {
        return false;
    }
    let mut k: usize = 0usize;
    while k < n_sent {
        let base: usize = (k * obj_size) as usize;
        let mut j: usize = 0usize;
        while j < obj_size {
            if recv[(base + j) as usize] != sent[(base + j) as usize] {
                return false;
            }
            j = (j + 1usize) as usize;
        }
        if recv[(base + obj_size - 1usize) as usize] != 0u8 {
            return false;
        }
        k = (k + 1usize) as usize;
    }
    true
}

/// Little-endian IEEE-754 value octets (4 or 8 of them): if the value is a zero (all magnitude bits clear) clear its sign bit
/// too, i.e. map -0.0 to +0.0; every other bit pattern is left alone. Used only to state what remains true of the
/// float variations apart from the sign of zero.
pub fn float_clear_zero_sign(v: &mut [u8]) {
    let n: usize = v.len();
    let mut j: usize = 0usize;
    let mut zero: bool = true;
    while j < n {
        let b: u8 = if j == ((n - 1usize) as usize) { v[j] & 0x7Fu8 } else { v[j] };
        if b != 0u8 {
            zero = false;
        }
        j = (j + 1usize) as usize;
    }
    if zero {
        v[(n - 1usize) as usize] = 0u8;
    }
}

/// identity (integer-valued variations have no second representation of any value)
pub fn no_normalisation(_v: &mut [u8]) {}
