// Spec functions for C17 retry back-off, written from the property text
// ("a failing automatic task is retried after delays that start at the configured minimum, double each time and
//  never exceed the maximum"), not from the code. Explicit `as T` on every arithmetic result (Rust/Verus intersection).

/// Delay after one more consecutive failure, in whole milliseconds.
/// `has_last == false`: no failure since the last success (or since start) -> the configured minimum.
/// otherwise: twice the previous delay, capped at the configured maximum (mathematical doubling: no wrap-around).
/// Precondition of the property: min <= max.
pub fn backoff_next(min: u64, max: u64, has_last: bool, last: u64) -> u64 {
    if !has_last {
        return min;
    }
    let doubled: u128 = ((last as u128) * 2u128) as u128;
    if doubled > (max as u128) { max } else { doubled as u64 }
}

/// Same rule at the full resolution of the configuration type: a delay is a pair (whole seconds, nanoseconds < 10^9).
/// Doubling is mathematical (carry from the nanoseconds into the seconds, seconds in u128 so nothing wraps); the result
/// is capped at (max_s, max_n) in lexicographic = chronological order.
pub fn backoff_next_sn(min_s: u64, min_n: u32, max_s: u64, max_n: u32, has_last: bool, last_s: u64, last_n: u32) -> (u64, u32) {
    if !has_last {
        return (min_s, min_n);
    }
    let n2: u32 = (last_n * 2u32) as u32; // last_n < 10^9, so below 2^31
    let carry: u128 = if n2 >= 1_000_000_000u32 { 1u128 } else { 0u128 };
    let dn: u32 = if n2 >= 1_000_000_000u32 { (n2 - 1_000_000_000u32) as u32 } else { n2 };
    let ds: u128 = ((last_s as u128) * 2u128 + carry) as u128;
    let exceeds: bool = ds > (max_s as u128) || (ds == (max_s as u128) && dn > max_n);
    if exceeds { (max_s, max_n) } else { (ds as u64, dn) }
}

/// Delay of the k-th consecutive failure (1 <= k <= 64) in milliseconds, closed form: min(min * 2^(k-1), max).
pub fn backoff_kth(min: u64, max: u64, k: u32) -> u64 {
    let scaled: u128 = ((min as u128) << ((k - 1u32) as u32)) as u128;
    if scaled > (max as u128) { max } else { scaled as u64 }
}
