// Spec functions for C09, part b: free-format file objects (IEEE 1815-2012 Annex A.26, group 70) and the
// object-header range field (clause 4.2.2.7). Written from the standard's object layouts, NOT from the code.
// Intersection of Rust and Verus syntax: every arithmetic result carries an explicit `as T`.

/// file command status codes the standard assigns a meaning to (Annex A, g70v4/g70v6 "status" octet):
/// 0..=9, 16..=20 and 255 (UNDEFINED); everything else is reserved
pub fn file_status_defined(x: u8) -> bool {
    x <= 9u8 || (x >= 16u8 && x <= 20u8) || x == 255u8
}

/// operational modes of g70v3: 0 NULL, 1 READ, 2 WRITE, 3 APPEND; everything else is reserved
pub fn file_mode_defined(x: u16) -> bool {
    x <= 3u16
}

/// file types of g70v7: 0 directory, 1 simple file
pub fn file_type_defined(x: u16) -> bool {
    x <= 1u16
}

/// length of the fixed part of a group 70 object = offset of its first variable-length field
/// (g70v2: 4 x u16 offsets/sizes + u32 key; g70v3: 2 x u16 + time 6 + permissions 2 + key 4 + size 4 + mode 2 + block 2 + id 2;
///  g70v4: handle 4 + size 4 + block 2 + id 2 + status 1; g70v5: handle 4 + block 4; g70v6: handle 4 + block 4 + status 1;
///  g70v7: 2 x u16 + type 2 + size 4 + time 6 + permissions 2 + id 2; g70v8: nothing but the string)
pub fn file_fixed_len(var: u8) -> usize {
    if var == 2u8 { return 12usize; }
    if var == 3u8 { return 26usize; }
    if var == 4u8 { return 13usize; }
    if var == 5u8 { return 8usize; }
    if var == 6u8 { return 9usize; }
    if var == 7u8 { return 20usize; }
    0usize
}

/// the 16-bit permissions word of g70v3/g70v7: bit 0 world execute, 1 world write, 2 world read, 3..5 the same
/// for the group, 6..8 for the owner; bits 9..15 reserved (0)
pub fn file_permission_word(we: bool, ww: bool, wr: bool, ge: bool, gw: bool, gr: bool, oe: bool, ow: bool, or: bool) -> u16 {
    let mut x: u16 = 0u16;
    if we { x = (x | 0x001u16) as u16; }
    if ww { x = (x | 0x002u16) as u16; }
    if wr { x = (x | 0x004u16) as u16; }
    if ge { x = (x | 0x008u16) as u16; }
    if gw { x = (x | 0x010u16) as u16; }
    if gr { x = (x | 0x020u16) as u16; }
    if oe { x = (x | 0x040u16) as u16; }
    if ow { x = (x | 0x080u16) as u16; }
    if or { x = (x | 0x100u16) as u16; }
    x
}

/// little-endian 16-bit field
pub fn le16(lo: u8, hi: u8) -> u16 {
    ((lo as u16) | (((hi as u16) << 8u16) as u16)) as u16
}

/// little-endian 32-bit field
pub fn le32(b0: u8, b1: u8, b2: u8, b3: u8) -> u32 {
    ((b0 as u32) | (((b1 as u32) << 8u32) as u32) | (((b2 as u32) << 16u32) as u32) | (((b3 as u32) << 24u32) as u32)) as u32
}

/// little-endian 48-bit field (DNP3 time)
pub fn le48(b0: u8, b1: u8, b2: u8, b3: u8, b4: u8, b5: u8) -> u64 {
    ((le32(b0, b1, b2, b3) as u64) | (((le16(b4, b5) as u64) << 32u64) as u64)) as u64
}

/// number of octets of the range field that follows the qualifier octet (clause 4.2.2.7, range specifier codes):
/// 0: 8-bit start and stop (2), 1: 16-bit start and stop (4), 6: no range field (0), 7: 8-bit count (1), 8: 16-bit count (2),
/// 0xB: 8-bit count of variable-sized objects (1). 0 for qualifiers the library does not support.
pub fn range_field_len(qualifier: u8) -> usize {
    if qualifier == 0x00u8 { return 2usize; }
    if qualifier == 0x01u8 { return 4usize; }
    if qualifier == 0x06u8 { return 0usize; }
    if qualifier == 0x07u8 || qualifier == 0x17u8 { return 1usize; }
    if qualifier == 0x08u8 || qualifier == 0x28u8 { return 2usize; }
    if qualifier == 0x5Bu8 { return 1usize; }
    0usize
}

/// number of octets each object is prefixed with (object prefix code, bits 4-6 of the qualifier):
/// 1: 8-bit index, 2: 16-bit index, 5: 16-bit object size; 0: none
pub fn object_prefix_len(qualifier: u8) -> usize {
    let code: u8 = ((qualifier >> 4u8) & 0x07u8) as u8;
    if code == 1u8 { return 1usize; }
    if code == 2u8 || code == 5u8 { return 2usize; }
    0usize
}

/// length of an application header: control + function (+ 2 IIN octets in responses 129/130)
pub fn app_header_len(function: u8) -> usize {
    if function == 129u8 || function == 130u8 { 4usize } else { 2usize }
}

// ---- UTF-8 well-formedness (RFC 3629 / Unicode Table 3-7) for strings of up to 3 octets
pub fn utf8_ascii(a: u8) -> bool {
    a <= 0x7Fu8
}
pub fn utf8_cont(a: u8) -> bool {
    a >= 0x80u8 && a <= 0xBFu8
}
/// a is the lead octet of a 2-octet sequence (C0, C1 would be overlong) and b continues it
pub fn utf8_seq2(a: u8, b: u8) -> bool {
    a >= 0xC2u8 && a <= 0xDFu8 && utf8_cont(b)
}
/// 3-octet sequence: E0 A0..BF (no overlong), E1..EC / EE..EF 80..BF, ED 80..9F (no surrogates), then a continuation
pub fn utf8_seq3(a: u8, b: u8, c: u8) -> bool {
    let second_ok: bool = if a == 0xE0u8 {
        b >= 0xA0u8 && b <= 0xBFu8
    } else if a == 0xEDu8 {
        b >= 0x80u8 && b <= 0x9Fu8
    } else {
        a >= 0xE1u8 && a <= 0xEFu8 && utf8_cont(b)
    };
    second_ok && utf8_cont(c)
}
pub fn utf8_valid_1(a: u8) -> bool {
    utf8_ascii(a)
}
pub fn utf8_valid_2(a: u8, b: u8) -> bool {
    (utf8_ascii(a) && utf8_valid_1(b)) || utf8_seq2(a, b)
}
pub fn utf8_valid_3(a: u8, b: u8, c: u8) -> bool {
    (utf8_ascii(a) && utf8_valid_2(b, c)) || (utf8_seq2(a, b) && utf8_ascii(c)) || utf8_seq3(a, b, c)
}
