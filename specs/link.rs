// Spec functions for the link layer, written from IEEE 1815 clause 9.2 (not from the code).
// Intersection of Rust and Verus syntax: every arithmetic result carries an explicit `as T`.

/// one bit-step of the DNP3 CRC (polynomial x^16+x^13+x^12+x^11+x^10+x^8+x^6+x^5+x^2+1, reflected = 0xA6BC)
pub fn crc_bit_step(acc: u16) -> u16 {
    if (acc & 1u16) == 1u16 { ((acc >> 1u16) ^ 0xA6BCu16) as u16 } else { (acc >> 1u16) as u16 }
}

/// eight bit-steps: absorb one byte LSB first
pub fn crc_byte_step(acc: u16, byte: u8) -> u16 {
    let a0: u16 = (acc ^ (byte as u16)) as u16;
    let a1: u16 = crc_bit_step(a0);
    let a2: u16 = crc_bit_step(a1);
    let a3: u16 = crc_bit_step(a2);
    let a4: u16 = crc_bit_step(a3);
    let a5: u16 = crc_bit_step(a4);
    let a6: u16 = crc_bit_step(a5);
    let a7: u16 = crc_bit_step(a6);
    crc_bit_step(a7)
}

/// number of bytes following the 10-byte header for `n` user-data bytes: n + 2*ceil(n/16)
pub fn trailer_len(n: usize) -> usize {
    (n + 2usize * ((n + 15usize) / 16usize)) as usize
}

// ---- C07: what a link endpoint does with a received header (IEEE 1815 clause 9.2.4-9.2.6 and the property text).
// Encodings: deliver 0 = nothing, 1 = user data, 2 = link status request, 3 = link status response;
//            reply   0 = none, 1 = ACK, 2 = LINK_STATUS;   sec state 0 = NotReset, 1 = Reset(expect fcb=0), 2 = Reset(expect fcb=1)
//            broadcast 0 = not a broadcast, 1 = 0xFFFF (confirm optional), 2 = 0xFFFE (mandatory), 3 = 0xFFFD (not required)
#[derive(Copy, Clone, PartialEq, Eq, Debug)]
pub struct LinkDecision {
    pub deliver: u8,
    pub reply: u8,
    pub sec: u8,
    pub broadcast: u8,
}

pub fn link_decide(ctrl: u8, dst: u16, src: u16, own_is_master: bool, self_addr_enabled: bool, local: u16, sec: u8) -> LinkDecision {
    let ignore = LinkDecision { deliver: 0u8, reply: 0u8, sec: sec, broadcast: 0u8 };
    let dir_master: bool = (ctrl & 0x80u8) != 0u8;
    let fcb: bool = (ctrl & 0x20u8) != 0u8;
    let fcv: bool = (ctrl & 0x10u8) != 0u8;
    let func: u8 = ctrl & 0x4Fu8; // PRM bit + function code
    // must come from the opposite station type
    if dir_master == own_is_master { return ignore; }
    // source must be an ordinary (non-reserved, non-broadcast, non-self) address
    if src >= 0xFFF0u16 { return ignore; }
    // destination classes
    let broadcast: u8 =
        if dst == 0xFFFFu16 { 1u8 } else if dst == 0xFFFEu16 { 2u8 } else if dst == 0xFFFDu16 { 3u8 } else { 0u8 };
    if broadcast != 0u8 {
        if own_is_master { return ignore; }
    } else if dst == 0xFFFCu16 {
        if !self_addr_enabled { return ignore; }
    } else if dst >= 0xFFF0u16 {
        return ignore;
    } else if dst != local {
        return ignore;
    }
    let is_user_data: bool = func == 0x44u8 || func == 0x43u8;
    if broadcast != 0u8 && !is_user_data { return ignore; }
    if func == 0x44u8 {
        // unconfirmed user data
        if fcv { return ignore; }
        return LinkDecision { deliver: 1u8, reply: 0u8, sec: sec, broadcast: broadcast };
    }
    if func == 0x40u8 {
        // reset link states
        if fcv { return ignore; }
        return LinkDecision { deliver: 0u8, reply: 1u8, sec: 2u8, broadcast: 0u8 };
    }
    if func == 0x43u8 {
        // confirmed user data: only after a reset, delivered once per FCB toggle, ACKed unless broadcast
        if !fcv { return ignore; }
        if sec == 0u8 { return ignore; }
        let expected: bool = sec == 2u8;
        let reply: u8 = if broadcast == 0u8 { 1u8 } else { 0u8 };
        if fcb == expected {
            return LinkDecision { deliver: 1u8, reply: reply, sec: if expected { 1u8 } else { 2u8 }, broadcast: broadcast };
        }
        return LinkDecision { deliver: 0u8, reply: reply, sec: sec, broadcast: 0u8 };
    }
    if func == 0x49u8 {
        // request link status: always answered
        if fcv { return ignore; }
        return LinkDecision { deliver: 2u8, reply: 2u8, sec: sec, broadcast: 0u8 };
    }
    if func == 0x0Bu8 {
        // link status response (secondary -> primary)
        return LinkDecision { deliver: 3u8, reply: 0u8, sec: sec, broadcast: 0u8 };
    }
    ignore
}
