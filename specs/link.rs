// Spec functions for the link layer, written from IEEE 1815 clause 9.2 (not from the code).
// Intersection of Rust and Verus syntax: every arithmetic result carries an explicit `as T`.

/// one bit-step of the DNP3 CRC (polynomial x^16+x^13+x^12+x^11+x^10+x^8+x^6+x^5+x^2+1, reflected = 0xA6BC)
pub fn crc_bit_step(acc: u16) -> u16 {
    if (acc & 1u16) == 1u16 { ((acc >> 1u16) ^ 0xA6BCu16) as u16 } else { (acc >> 1u16) as u16 }
}

/// eight bit-steps: absorb one byte LSB first
pub fn crc_byte_step(acc: u16, byte: u8) -> u16 {
    let a0: u16 = (acc ^ (byte as u16)) as u16;
    let a1: u16 = crc_bit_step(a0);
    let a2: u16 = crc_bit_step(a1);
    let a3: u16 = crc_bit_step(a2);
    let a4: u16 = crc_bit_step(a3);
    let a5: u16 = crc_bit_step(a4);
    let a6: u16 = crc_bit_step(a5);
    let a7: u16 = crc_bit_step(a6);
    crc_bit_step(a7)
}

/// number of bytes following the 10-byte header for `n` user-data bytes: n + 2*ceil(n/16)
pub fn trailer_len(n: usize) -> usize {
    (n + 2usize * ((n + 15usize) / 16usize)) as usize
}
