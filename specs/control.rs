// Spec functions for select-before-operate (C04), written from IEEE 1815 4.4.4 / 7.5.1.2 and the property text.
// Intersection of Rust and Verus syntax: every arithmetic result carries an explicit `as T`.

/// successor of an application-layer sequence number, modulo 16
pub fn app_seq_next(s: u8) -> u8 { ((((s & 0x0Fu8) as u16 + 1u16) as u16) % 16u16) as u8 }

/// (secs, nanos) time stamps with nanos < 10^9 (normal form). `a` is not later than `b`:
pub fn ts_le(a_secs: u64, a_nanos: u32, b_secs: u64, b_nanos: u32) -> bool {
    a_secs < b_secs || (a_secs == b_secs && a_nanos <= b_nanos)
}

/// An OPERATE (`seq`, id of the fragment that carried it, hash of its control objects, arrival time) matches the
/// recorded SELECT iff it carries the next sequence number, is the very next fragment received, has byte-identical
/// objects (equal hash; collisions are the stated assumption) and arrives no later than `timeout` after the SELECT
/// (and not before it). All time stamps in normal form (nanos < 10^9); written without multiplication so that the
/// solver sees additions and comparisons only.
pub fn match_operate_ok(
    sel_seq: u8, sel_frame_id: u32, sel_hash: u64, sel_secs: u64, sel_nanos: u32,
    seq: u8, frame_id: u32, hash: u64, now_secs: u64, now_nanos: u32,
    timeout_secs: u64, timeout_nanos: u32,
) -> bool {
    let next_frame: u32 = (((sel_frame_id as u64 + 1u64) as u64) % 4294967296u64) as u32;
    if (seq & 0x0Fu8) != app_seq_next(sel_seq) { return false; }
    if frame_id != next_frame { return false; }
    if hash != sel_hash { return false; }
    // now >= select time
    if !ts_le(sel_secs, sel_nanos, now_secs, now_nanos) { return false; }
    // elapsed = now - select time, in normal form (borrow one second if needed)
    let borrow: bool = now_nanos < sel_nanos;
    let el_secs: u64 = if borrow { (((now_secs - sel_secs) as u64) - 1u64) as u64 } else { (now_secs - sel_secs) as u64 };
    let el_nanos: u32 = if borrow { (((now_nanos as u64 + 1000000000u64) as u64) - (sel_nanos as u64)) as u32 } else { (now_nanos - sel_nanos) as u32 };
    // elapsed <= timeout
    ts_le(el_secs, el_nanos, timeout_secs, timeout_nanos)
}
