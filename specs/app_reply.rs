// Spec functions for application-layer headers and reply rules (C11/C12), written from IEEE 1815 clause 4.2.2
// (application control octet, function codes, internal indications) and the property text, not from the code.

/// application control octet: FIR = bit 7, FIN = bit 6, CON = bit 5, UNS = bit 4, SEQ = bits 0..3
pub fn app_control_octet(fir: bool, fin: bool, con: bool, uns: bool, seq: u8) -> u8 {
    let b7: u8 = if fir { 0x80u8 } else { 0u8 };
    let b6: u8 = if fin { 0x40u8 } else { 0u8 };
    let b5: u8 = if con { 0x20u8 } else { 0u8 };
    let b4: u8 = if uns { 0x10u8 } else { 0u8 };
    (b7 | b6 | b5 | b4 | (seq & 0x0Fu8)) as u8
}

// successor of an application sequence number: `app_seq_next` in specs/control.rs

/// request function codes whose fragments consist of the application header only (no object headers are defined):
/// CONFIRM(0), COLD_RESTART(13), WARM_RESTART(14), INITIALIZE_DATA(15), SAVE_CONFIGURATION(19), DELAY_MEASURE(23),
/// RECORD_CURRENT_TIME(24). Every other defined code (requests and the two responses) may carry object headers.
pub fn function_allows_objects(code: u8) -> bool {
    !(code == 0u8 || code == 13u8 || code == 14u8 || code == 15u8 || code == 19u8 || code == 23u8 || code == 24u8)
}

/// a received fragment is acceptable as a REQUEST iff it carries no IIN (i.e. its function is not a response code),
/// is a single fragment (FIR and FIN), and has the UNS bit only on a CONFIRM
pub fn request_fragment_valid(ctrl: u8, code: u8, has_iin: bool) -> bool {
    let fir: bool = (ctrl & 0x80u8) != 0u8;
    let fin: bool = (ctrl & 0x40u8) != 0u8;
    let uns: bool = (ctrl & 0x10u8) != 0u8;
    !has_iin && code != 129u8 && code != 130u8 && fir && fin && (!uns || code == 0u8)
}

/// a received fragment is acceptable as a RESPONSE iff its function is RESPONSE(129) with UNS clear, or
/// UNSOLICITED_RESPONSE(130) with UNS, FIR and FIN set; both carry IIN
pub fn response_fragment_valid(ctrl: u8, code: u8, has_iin: bool) -> bool {
    let fir: bool = (ctrl & 0x80u8) != 0u8;
    let fin: bool = (ctrl & 0x40u8) != 0u8;
    let uns: bool = (ctrl & 0x10u8) != 0u8;
    has_iin && ((code == 129u8 && !uns) || (code == 130u8 && uns && fir && fin))
}

/// IIN2 rejection bits: NO_FUNC_CODE_SUPPORT = bit 0, OBJECT_UNKNOWN = bit 1, PARAMETER_ERROR = bit 2
pub fn iin2_is_rejection(iin2: u8) -> bool {
    (iin2 & 0x07u8) != 0u8
}
