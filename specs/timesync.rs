// Spec functions for C18 (time synchronisation arithmetic), written from the property text and IEEE 1815 (DNP3 time =
// unsigned 48-bit count of milliseconds since the epoch), not from the code.

/// largest DNP3 time value: 2^48 - 1 milliseconds
pub fn ts_max() -> u64 {
    0x0000_FFFF_FFFF_FFFFu64
}

/// whole milliseconds contained in a duration given as (seconds, nanoseconds < 10^9): floor
pub fn dur_floor_ms(secs: u64, nanos: u32) -> u128 {
    ((secs as u128) * 1000u128 + ((nanos / 1_000_000u32) as u128)) as u128
}

/// DNP3 time `t` (<= 2^48-1) advanced by a duration: (true, t + floor_ms(d)) iff that still fits 48 bits, else (false, 0)
pub fn ts_add(t: u64, secs: u64, nanos: u32) -> (bool, u64) {
    let sum: u128 = ((t as u128) + dur_floor_ms(secs, nanos)) as u128;
    if sum <= (ts_max() as u128) { (true, sum as u64) } else { (false, 0u64) }
}
