// Spec functions for the outstation event store (C03 / C13), written from the property text:
// "events are reported oldest first", "released exactly once, only after a confirmed response carried them",
// "class bit set exactly when the buffer holds events of that class not part of a response awaiting confirmation".
// A store is seen as a sequence (oldest first) of at most EV_MAX records; per-record predicates are passed as flag arrays.
// Written without overflow-checked arithmetic and without variable array indexing (each such operation costs a Kani check).

pub const EV_MAX: usize = 4usize;

/// record states: 0 = recorded, not part of any response (Unselected); 1 = chosen for the response being built (Selected);
/// 2 = carried by a response that awaits confirmation (Written)
pub const EV_UNSELECTED: u8 = 0u8;
pub const EV_SELECTED: u8 = 1u8;
pub const EV_WRITTEN: u8 = 2u8;

/// position in the OLD sequence of element `i` of the sequence obtained by deleting old position `k`
pub fn ev_skip(k: usize, i: usize) -> usize {
    if i < k { i } else { i.wrapping_add(1usize) }
}

fn ev_b(x: bool) -> usize { if x { 1usize } else { 0usize } }

/// number of set flags among positions < i
pub fn ev_rank(flags: &[bool; EV_MAX], i: usize) -> usize {
    let [f0, f1, f2, f3] = *flags;
    ev_b(f0 && 0usize < i).wrapping_add(ev_b(f1 && 1usize < i)).wrapping_add(ev_b(f2 && 2usize < i)).wrapping_add(ev_b(f3 && 3usize < i))
}

/// first position < n whose flag is set; n if there is none
pub fn ev_first(flags: &[bool; EV_MAX], n: usize) -> usize {
    let [f0, f1, f2, f3] = *flags;
    if f0 && 0usize < n { 0usize } else if f1 && 1usize < n { 1usize } else if f2 && 2usize < n { 2usize } else if f3 && 3usize < n { 3usize } else { n }
}

/// "select at most `limit` of the candidates, oldest first": candidate i is taken iff fewer than `limit` candidates precede it
pub fn ev_taken(flags: &[bool; EV_MAX], i: usize, limit: usize) -> bool {
    let [f0, f1, f2, f3] = *flags;
    let fi: bool = if i == 0usize { f0 } else if i == 1usize { f1 } else if i == 2usize { f2 } else if i == 3usize { f3 } else { false };
    fi && ev_rank(flags, i) < limit
}

/// how many are taken: min(limit, number of candidates among the first n)
pub fn ev_taken_count(flags: &[bool; EV_MAX], n: usize, limit: usize) -> usize {
    let k: usize = ev_rank(flags, n);
    if k < limit { k } else { limit }
}

/// overflow indication after a confirmation: stays set iff it was set and some enabled type (max > 0) is still at capacity
pub fn ev_overflow_after_confirm(was_set: bool, any_type_at_capacity: bool) -> bool {
    was_set && any_type_at_capacity
}
