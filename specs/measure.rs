// Spec functions for C10 (measurement values survive the trip), written from the property text and
// IEEE 1815-2012 Annex A (object library) / clause 11.6 (flag octet), NOT from the code.
// Pure Rust over primitives; every arithmetic result carries an explicit `as T`.

// ---- flag octet (IEEE 1815 11.6.x): bit0 ONLINE, bit1 RESTART, bit2 COMM_LOST, bit3 REMOTE_FORCED, bit4 LOCAL_FORCED,
//      bit5 CHATTER_FILTER (binary) / ROLLOVER (counter) / OVER_RANGE (analog), bit6 DISCONTINUITY / REFERENCE_ERR /
//      low state bit of a double-bit input, bit7 STATE (binary) / high state bit (double-bit).
pub const FLAG_ONLINE: u8 = 0x01u8;
pub const FLAG_OVER_RANGE: u8 = 0x20u8;
pub const FLAG_STATE: u8 = 0x80u8;
pub const FLAG_DBIT_MASK: u8 = 0xC0u8;

// ---- what a variation can carry (Annex A). kind of the value field:
pub const K_STATE: u8 = 0u8; // single/double-bit state carried inside the flag octet
pub const K_I16: u8 = 1u8;
pub const K_I32: u8 = 2u8;
pub const K_F32: u8 = 3u8;
pub const K_F64: u8 = 4u8;
pub const K_U16: u8 = 5u8;
pub const K_U32: u8 = 6u8;
pub const K_PACKED: u8 = 7u8; // packed bits: no flag octet, no time, state only
pub const K_UNKNOWN: u8 = 255u8;
// time field: 0 = none, 1 = 48-bit absolute (ms since epoch), 2 = 16-bit relative to a common time of occurrence (g51)
#[derive(Copy, Clone, PartialEq, Eq, Debug)]
pub struct VarCaps {
    pub kind: u8,
    pub flags: bool,
    pub time: u8,
}

const fn caps(kind: u8, flags: bool, time: u8) -> VarCaps {
    VarCaps { kind, flags, time }
}

/// Annex A: (group, variation) -> what the object carries. Only measurement groups.
pub fn var_caps(group: u8, var: u8) -> VarCaps {
    match (group, var) {
        // binary input / double-bit input / binary output status, static
        (1u8, 1u8) | (3u8, 1u8) | (10u8, 1u8) => caps(K_PACKED, false, 0u8),
        (1u8, 2u8) | (3u8, 2u8) | (10u8, 2u8) => caps(K_STATE, true, 0u8),
        // events: v1 without time, v2 absolute time, v3 relative time
        (2u8, 1u8) | (4u8, 1u8) | (11u8, 1u8) => caps(K_STATE, true, 0u8),
        (2u8, 2u8) | (4u8, 2u8) | (11u8, 2u8) => caps(K_STATE, true, 1u8),
        (2u8, 3u8) | (4u8, 3u8) => caps(K_STATE, true, 2u8),
        // counters g20 (static) : 1 = 32 flag, 2 = 16 flag, 5 = 32 no flag, 6 = 16 no flag
        (20u8, 1u8) => caps(K_U32, true, 0u8),
        (20u8, 2u8) => caps(K_U16, true, 0u8),
        (20u8, 5u8) => caps(K_U32, false, 0u8),
        (20u8, 6u8) => caps(K_U16, false, 0u8),
        // frozen counters g21: 1/2 flag, 5/6 flag + time of freeze, 9/10 no flag
        (21u8, 1u8) => caps(K_U32, true, 0u8),
        (21u8, 2u8) => caps(K_U16, true, 0u8),
        (21u8, 5u8) => caps(K_U32, true, 1u8),
        (21u8, 6u8) => caps(K_U16, true, 1u8),
        (21u8, 9u8) => caps(K_U32, false, 0u8),
        (21u8, 10u8) => caps(K_U16, false, 0u8),
        // counter events g22 / frozen counter events g23: 1/2 flag, 5/6 flag + time
        (22u8, 1u8) | (23u8, 1u8) => caps(K_U32, true, 0u8),
        (22u8, 2u8) | (23u8, 2u8) => caps(K_U16, true, 0u8),
        (22u8, 5u8) | (23u8, 5u8) => caps(K_U32, true, 1u8),
        (22u8, 6u8) | (23u8, 6u8) => caps(K_U16, true, 1u8),
        // analog input g30: 1 = 32 flag, 2 = 16 flag, 3 = 32 no flag, 4 = 16 no flag, 5 = single flag, 6 = double flag
        (30u8, 1u8) => caps(K_I32, true, 0u8),
        (30u8, 2u8) => caps(K_I16, true, 0u8),
        (30u8, 3u8) => caps(K_I32, false, 0u8),
        (30u8, 4u8) => caps(K_I16, false, 0u8),
        (30u8, 5u8) => caps(K_F32, true, 0u8),
        (30u8, 6u8) => caps(K_F64, true, 0u8),
        // frozen analog input g31: 1/2 flag, 3/4 flag + time of freeze, 5/6 no flag, 7 single flag, 8 double flag
        (31u8, 1u8) => caps(K_I32, true, 0u8),
        (31u8, 2u8) => caps(K_I16, true, 0u8),
        (31u8, 3u8) => caps(K_I32, true, 1u8),
        (31u8, 4u8) => caps(K_I16, true, 1u8),
        (31u8, 5u8) => caps(K_I32, false, 0u8),
        (31u8, 6u8) => caps(K_I16, false, 0u8),
        (31u8, 7u8) => caps(K_F32, true, 0u8),
        (31u8, 8u8) => caps(K_F64, true, 0u8),
        // analog events g32 / frozen analog events g33 / analog output events g42:
        // 1 = 32, 2 = 16, 3 = 32 + time, 4 = 16 + time, 5 = single, 6 = double, 7 = single + time, 8 = double + time; all with flag
        (32u8, 1u8) | (33u8, 1u8) | (42u8, 1u8) => caps(K_I32, true, 0u8),
        (32u8, 2u8) | (33u8, 2u8) | (42u8, 2u8) => caps(K_I16, true, 0u8),
        (32u8, 3u8) | (33u8, 3u8) | (42u8, 3u8) => caps(K_I32, true, 1u8),
        (32u8, 4u8) | (33u8, 4u8) | (42u8, 4u8) => caps(K_I16, true, 1u8),
        (32u8, 5u8) | (33u8, 5u8) | (42u8, 5u8) => caps(K_F32, true, 0u8),
        (32u8, 6u8) | (33u8, 6u8) | (42u8, 6u8) => caps(K_F64, true, 0u8),
        (32u8, 7u8) | (33u8, 7u8) | (42u8, 7u8) => caps(K_F32, true, 1u8),
        (32u8, 8u8) | (33u8, 8u8) | (42u8, 8u8) => caps(K_F64, true, 1u8),
        // analog output status g40: 1 = 32, 2 = 16, 3 = single, 4 = double; all with flag
        (40u8, 1u8) => caps(K_I32, true, 0u8),
        (40u8, 2u8) => caps(K_I16, true, 0u8),
        (40u8, 3u8) => caps(K_F32, true, 0u8),
        (40u8, 4u8) => caps(K_F64, true, 0u8),
        _ => caps(K_UNKNOWN, false, 0u8),
    }
}

// ---- analog narrowing. The property: a value the variation cannot represent is saturated to the nearest end of the
// target range and flagged OVER_RANGE; OVER_RANGE is raised IFF the value is outside the target range. A NaN is not
// inside any integer range (the predicate is written so that NaN is "outside").

/// true iff `v` is NOT a real number inside [-32768, 32767] (NaN and the infinities are outside)
pub fn outside_i16(v: f64) -> bool {
    !(v >= -32768.0f64 && v <= 32767.0f64)
}

/// true iff `v` is NOT a real number inside [-2^31, 2^31-1]
pub fn outside_i32(v: f64) -> bool {
    !(v >= -2147483648.0f64 && v <= 2147483647.0f64)
}

/// single precision: the finite range is [-f32::MAX, f32::MAX]. A NaN is representable as a (quiet) NaN of the narrower
/// format, so it is not "outside"; the infinities exceed every finite measurement range and are outside.
pub fn outside_f32(v: f64) -> bool {
    v < -340282346638528859811704183484516925440.0f64 || v > 340282346638528859811704183484516925440.0f64
}

/// saturation to 16 bit: (value, over_range). In range the canonical value drops the fraction; harnesses accept any
/// integer closer than 1 to the original (`int_close`) so that a different rounding mode is not a false alarm.
/// For NaN only the flag is specified (value 0 here, not compared).
pub fn sat_i16(v: f64) -> (i16, bool) {
    if v != v {
        return (0i16, true);
    }
    if v < -32768.0f64 {
        return (-32768i16, true);
    }
    if v > 32767.0f64 {
        return (32767i16, true);
    }
    (v as i16, false)
}

pub fn sat_i32(v: f64) -> (i32, bool) {
    if v != v {
        return (0i32, true);
    }
    if v < -2147483648.0f64 {
        return (-2147483648i32, true);
    }
    if v > 2147483647.0f64 {
        return (2147483647i32, true);
    }
    (v as i32, false)
}

/// saturation to single precision: in range the IEEE 754 round-to-nearest-even narrowing (Rust `as f32`)
pub fn sat_f32(v: f64) -> (f32, bool) {
    if v < -340282346638528859811704183484516925440.0f64 {
        return (-340282346638528859811704183484516925440.0f32, true);
    }
    if v > 340282346638528859811704183484516925440.0f64 {
        return (340282346638528859811704183484516925440.0f32, true);
    }
    (v as f32, false)
}

/// narrowing a 32-bit analog to 16 bit (same rule, integer domain)
pub fn sat_i32_to_i16(v: i32) -> (i16, bool) {
    if v < -32768i32 {
        return (-32768i16, true);
    }
    if v > 32767i32 {
        return (32767i16, true);
    }
    (v as i16, false)
}

/// an integer reading `r` (given as the f64 the master hands to the handler) is an acceptable image of the in-range
/// real `v`: less than one count away (any rounding mode), never further
pub fn int_close(v: f64, r: f64) -> bool {
    ((r - 1.0f64) as f64) < v && v < ((r + 1.0f64) as f64)
}

/// flag octet after narrowing: every bit untouched, OVER_RANGE added iff outside
pub fn flags_after_narrowing(flags: u8, over: bool) -> u8 {
    if over { (flags | FLAG_OVER_RANGE) as u8 } else { flags }
}

// ---- counters: a 16-bit variation keeps the low 16 bits (property text)
pub fn counter_low16(v: u32) -> u16 {
    (v & 0xFFFFu32) as u16
}

// ---- flag octet of binary / double-bit objects on the wire: the state bits of the octet ARE the value
pub fn wire_flags_binary(flags: u8, value: bool) -> u8 {
    if value { ((flags & 0x7Fu8) | FLAG_STATE) as u8 } else { (flags & 0x7Fu8) as u8 }
}

/// double-bit state codes (Annex A g3/g4): 0 = intermediate, 1 = determined off, 2 = determined on, 3 = indeterminate;
/// carried in bits 7..6
pub fn wire_flags_double(flags: u8, state_code: u8) -> u8 {
    ((flags & 0x3Fu8) | ((state_code & 3u8) << 6u8)) as u8
}

pub fn state_of_binary_octet(octet: u8) -> bool {
    (octet & FLAG_STATE) != 0u8
}

pub fn state_code_of_double_octet(octet: u8) -> u8 {
    ((octet >> 6u8) & 3u8) as u8
}

/// a packed (flag-less bit) format may stand for the point iff, apart from the state bits, the flags are exactly ONLINE
pub fn packed_allowed(flags: u8, state_mask: u8) -> bool {
    (flags & !state_mask) == FLAG_ONLINE
}

/// a variation without a flag octet reports a point whose flags the receiver must take as ONLINE, nothing else
pub fn implied_flags_without_octet() -> u8 {
    FLAG_ONLINE
}

// ---- time
pub const TIME_MAX: u64 = 0x0000_FFFF_FFFF_FFFFu64;

/// 48-bit time + offset: Some(sum) iff it still fits in 48 bits
pub fn time48_add(t: u64, add: u64) -> Option<u64> {
    if t > TIME_MAX || add > TIME_MAX {
        return None;
    }
    let s: u64 = (t + add) as u64;
    if s > TIME_MAX { None } else { Some(s) }
}

/// relative-time encoding against a common time of occurrence: representable iff same synchronisation quality,
/// not before the CTO and at most 65535 ms after it; the encoded field is the difference
pub fn cto_relative(event_sync: bool, event_t: u64, cto_sync: bool, cto_t: u64) -> Option<u16> {
    if event_sync != cto_sync {
        return None;
    }
    if event_t < cto_t {
        return None;
    }
    let d: u64 = (event_t - cto_t) as u64;
    if d > 65535u64 { None } else { Some(d as u16) }
}
