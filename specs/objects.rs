// Spec functions for C09 (application-layer objects), written from IEEE 1815-2012 Annex A (object library),
// clause 4.2.2.7 (qualifier / range fields) and Table 4-? (function codes) -- NOT from the code.
// Intersection of Rust and Verus syntax: every arithmetic result carries an explicit `as T`.

/// Size in bytes of ONE object of a fixed-size group/variation (Annex A object layouts), 0 if the variation
/// has no fixed per-object size (packed formats, "any variation", octet strings, free format, attributes).
pub fn object_size(group: u8, var: u8) -> usize {
    // building blocks: flags 1, status 1, control code 1, 16-bit 2, 32-bit/float 4, double 8, time (48 bit) 6
    if group == 1u8 {
        if var == 2u8 { return 1usize; }                         // flags
    } else if group == 2u8 || group == 4u8 {
        if var == 1u8 { return 1usize; }                         // flags
        if var == 2u8 { return 7usize; }                         // flags + absolute time
        if var == 3u8 { return 3usize; }                         // flags + 16-bit relative time
    } else if group == 3u8 {
        if var == 2u8 { return 1usize; }
    } else if group == 10u8 {
        if var == 2u8 { return 1usize; }
    } else if group == 11u8 || group == 13u8 {
        if var == 1u8 { return 1usize; }
        if var == 2u8 { return 7usize; }
    } else if group == 12u8 {
        if var == 1u8 { return 11usize; }                        // code, count, on 4, off 4, status
    } else if group == 20u8 {
        if var == 1u8 { return 5usize; }
        if var == 2u8 { return 3usize; }
        if var == 5u8 { return 4usize; }
        if var == 6u8 { return 2usize; }
    } else if group == 21u8 {
        if var == 1u8 { return 5usize; }
        if var == 2u8 { return 3usize; }
        if var == 5u8 { return 11usize; }
        if var == 6u8 { return 9usize; }
        if var == 9u8 { return 4usize; }
        if var == 10u8 { return 2usize; }
    } else if group == 22u8 || group == 23u8 {
        if var == 1u8 { return 5usize; }
        if var == 2u8 { return 3usize; }
        if var == 5u8 { return 11usize; }
        if var == 6u8 { return 9usize; }
    } else if group == 30u8 {
        if var == 1u8 { return 5usize; }
        if var == 2u8 { return 3usize; }
        if var == 3u8 { return 4usize; }
        if var == 4u8 { return 2usize; }
        if var == 5u8 { return 5usize; }
        if var == 6u8 { return 9usize; }
    } else if group == 31u8 {
        if var == 1u8 { return 5usize; }
        if var == 2u8 { return 3usize; }
        if var == 3u8 { return 11usize; }
        if var == 4u8 { return 9usize; }
        if var == 5u8 { return 4usize; }
        if var == 6u8 { return 2usize; }
        if var == 7u8 { return 5usize; }
        if var == 8u8 { return 9usize; }
    } else if group == 32u8 || group == 33u8 || group == 42u8 || group == 43u8 {
        // 32/33/42: flags + value (+ time); 43: status + value (+ time): same sizes
        if var == 1u8 { return 5usize; }
        if var == 2u8 { return 3usize; }
        if var == 3u8 { return 11usize; }
        if var == 4u8 { return 9usize; }
        if var == 5u8 { return 5usize; }
        if var == 6u8 { return 9usize; }
        if var == 7u8 { return 11usize; }
        if var == 8u8 { return 15usize; }
    } else if group == 34u8 {
        if var == 1u8 { return 2usize; }
        if var == 2u8 { return 4usize; }
        if var == 3u8 { return 4usize; }
    } else if group == 40u8 || group == 41u8 {
        // 40: flags + value; 41: value + status
        if var == 1u8 { return 5usize; }
        if var == 2u8 { return 3usize; }
        if var == 3u8 { return 5usize; }
        if var == 4u8 { return 9usize; }
    } else if group == 50u8 {
        if var == 1u8 { return 6usize; }
        if var == 2u8 { return 10usize; }                        // time + 32-bit interval
        if var == 3u8 { return 6usize; }
        if var == 4u8 { return 11usize; }                        // time + 32-bit interval + units
    } else if group == 51u8 {
        if var == 1u8 || var == 2u8 { return 6usize; }
    } else if group == 52u8 {
        if var == 1u8 || var == 2u8 { return 2usize; }
    } else if group == 102u8 {
        if var == 1u8 { return 1usize; }
    }
    0usize
}

/// number of objects designated by a start/stop range; None if the range is malformed (stop < start)
pub fn range_count(start: u16, stop: u16) -> Option<usize> {
    if stop < start { None } else { Some(((stop as usize) - (start as usize) + 1usize) as usize) }
}

/// bytes occupied by `count` single-bit packed objects
pub fn packed_bits_len(count: usize) -> usize {
    ((count + 7usize) / 8usize) as usize
}

/// bytes occupied by `count` double-bit packed objects
pub fn packed_double_bits_len(count: usize) -> usize {
    ((count + 3usize) / 4usize) as usize
}

/// command status codes that IEEE 1815 Table 11-? defines (0..=18 and 126 NON_PARTICIPATING)
pub fn command_status_defined(x: u8) -> bool {
    x <= 18u8 || x == 126u8
}

/// qualifier octets this library supports (clause 4.2.2.7: prefix code in bits 4-6, range specifier in bits 0-3)
pub fn qualifier_supported(x: u8) -> bool {
    x == 0x00u8 || x == 0x01u8 || x == 0x06u8 || x == 0x07u8 || x == 0x08u8 || x == 0x17u8 || x == 0x28u8 || x == 0x5Bu8
}

/// application function codes defined by IEEE 1815 that this library knows (requests 0..=30 without
/// the authentication codes 32/33, responses 129, 130)
pub fn function_code_supported(x: u8) -> bool {
    x <= 30u8 || x == 129u8 || x == 130u8
}

/// bytes of object data behind a start/stop object header of `count` objects (non-READ fragment):
/// variation 0 ("any variation") designates objects without carrying data; g1v1, g10v1, g80v1 are packed single
/// bits, g3v1 packed double bits; everything else is `count` fixed-size objects.
pub fn ranged_objects_len(group: u8, var: u8, count: usize) -> usize {
    if var == 0u8 {
        0usize
    } else if var == 1u8 && (group == 1u8 || group == 10u8 || group == 80u8) {
        packed_bits_len(count)
    } else if var == 1u8 && group == 3u8 {
        packed_double_bits_len(count)
    } else {
        (object_size(group, var) * count) as usize
    }
}
