    // Contract stub of DatabaseHandle::clear_written_events (async, so it cannot be #[kani::stub]bed): under cfg(kani) the weaver
    // inserts `return verif_clear_written_events()` at its top (weave/inject/session_io.json), for
    // the session-level harnesses that need the ORDER of release / format / transmit; what the release does to the
    // buffer is the C03 contract of EventBuffer::clear_written, proved on the real code elsewhere.
    use crate::transport::verif_kani_tw as tw;
    pub(crate) static mut CLEAR_CALLS: usize = 0;
    pub(crate) static mut CLEAR_AT: [usize; 4] = [0; 4];
    pub(crate) static mut RESET_CALLS: usize = 0;
    pub(crate) static mut RESET_AT: usize = 0;
    pub(crate) fn arm() { unsafe { CLEAR_CALLS = 0; RESET_CALLS = 0; RESET_AT = 0; CLEAR_AT = [0; 4]; } }
    pub(crate) fn verif_clear_written_events() {
        unsafe {
            if CLEAR_CALLS < 4 { CLEAR_AT[CLEAR_CALLS] = tw::tick(); }
            CLEAR_CALLS += 1;
        }
    }
    impl DatabaseHandle {
        /// logged stub of DatabaseHandle::reset (deselects everything: C03/C11 contract of the real EventBuffer::reset / StaticDatabase::reset)
        pub(crate) fn stub_reset(&mut self) {
            unsafe { RESET_CALLS += 1; RESET_AT = tw::tick(); }
        }
    }
