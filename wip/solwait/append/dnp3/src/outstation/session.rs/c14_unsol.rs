    // Unsolicited reporting (C14) under contract, by layers:
    //   check_unsolicited + perform_null_unsolicited + maybe_perform_unsolicited + write_unsolicited_data   (real)
    //        over the contract of perform_unsolicited_response_series (hook_series)
    //   perform_unsolicited_response_series + write_unsolicited + repeat_unsolicited                        (real)
    //        over the contract of wait_for_unsolicited_confirm (hook_wait_uns)
    use crate::outstation::session::verif_kani_session as vs;
    use crate::outstation::session::verif_kani_c05_sol_tx as tx;
    use crate::outstation::session::verif_kani_hooks as hooks;
    use crate::transport::verif_kani_tw as tw;
    use crate::outstation::database::verif_kani_dbstub as dbs;
    use crate::util::phys::verif_kani_io as io;
    use crate::util::verif_kani_clock as clk;
    use crate::outstation::database::{ClassZeroConfig, EventBufferConfig};
    use crate::util::phys::PhysAddr;

    // ------------------------------------------------------------------ scripted wait_for_unsolicited_confirm
    pub(crate) const MAX_W: usize = 3;
    pub(crate) static mut W_CALLS: usize = 0;
    pub(crate) static mut W_SCRIPT: [u8; MAX_W] = [0; MAX_W];       // 0 timeout, 1 read next, 2 confirmed, 3 return to idle, 4 link error
    pub(crate) static mut W_ADVANCE: [u32; MAX_W] = [0; MAX_W];
    pub(crate) static mut W_ECSN: [u8; MAX_W] = [0; MAX_W];
    pub(crate) static mut W_NOW: [(i64, u32); MAX_W] = [(0, 0); MAX_W];
    pub(crate) static mut W_WRITES: [usize; MAX_W] = [0; MAX_W];     // transmissions so far when each wait began
    pub(crate) static mut W_DEADLINE: [Option<tokio::time::Instant>; MAX_W] = [None; MAX_W];
    pub(crate) fn scripted_wait_uns(uns_ecsn: Sequence, deadline: tokio::time::Instant) -> Option<Result<UnsolicitedWaitResult, RunError>> {
        unsafe {
            if W_CALLS >= MAX_W { kani::assume(false); }
            let k = W_CALLS;
            W_CALLS += 1;
            W_ECSN[k] = uns_ecsn.value();
            W_NOW[k] = clk::NOW;
            W_WRITES[k] = tw::CALLS;
            W_DEADLINE[k] = Some(deadline);
            clk::NOW.0 += W_ADVANCE[k] as i64;
            Some(match W_SCRIPT[k] {
                0 => Ok(UnsolicitedWaitResult::Timeout),
                1 => Ok(UnsolicitedWaitResult::ReadNext),
                2 => Ok(UnsolicitedWaitResult::Complete(UnsolicitedResult::Confirmed)),
                3 => Ok(UnsolicitedWaitResult::Complete(UnsolicitedResult::ReturnToIdle)),
                _ => Err(RunError::Link(LinkError::Stdio(std::io::ErrorKind::BrokenPipe))),
            })
        }
    }
    pub(crate) static mut DEFERRED_SET: bool = false;
    impl crate::outstation::deferred::DeferredRead {
        pub(crate) fn stub_is_set(&self) -> bool { unsafe { DEFERRED_SET } }
    }
    fn res_code(r: &Result<UnsolicitedResult, RunError>) -> u8 {
        match r { Ok(UnsolicitedResult::Timeout) => 0, Ok(UnsolicitedResult::Confirmed) => 2, Ok(UnsolicitedResult::ReturnToIdle) => 3, Err(_) => 4 }
    }

    // @harness ids=C14,C05,C12,C01 tier=quick kind=bounded bound="at most 3 confirm waits per series (the 4th is cut off); retry limit symbolic" stubs=1 units=outstation::session::OutstationSession::perform_unsolicited_response_series,outstation::session::OutstationSession::write_unsolicited,outstation::session::OutstationSession::repeat_unsolicited,outstation::session::RetryCounter::decrement timeout=1200 note="one unsolicited series: the response is transmitted once with fresh indication bits, then every wait is for ITS sequence number; on a confirm timeout it is retried IFF it is not a null response, no READ is deferred and the configured retry count is not used up; every retry re-sends exactly the fragment first transmitted (same header octets incl. IIN, same length and body; indication bits NOT recomputed); the confirm timer restarts only with a (re)transmission, not when a fragment was merely processed; the series ends with the wait's verdict (confirmed / return to idle), with Timeout when no retry is left, or with the link error"
    #[kani::proof]
    #[kani::unwind(5)]
    #[kani::stub(OutstationSession::get_response_iin, OutstationSession::stub_get_response_iin)]
    #[kani::stub(crate::outstation::session::verif_kani_hooks::hook_wait_uns, scripted_wait_uns)]
    #[kani::stub(crate::outstation::deferred::DeferredRead::is_set, crate::outstation::deferred::DeferredRead::stub_is_set)]
    #[kani::stub(tokio::time::Instant::now, crate::util::verif_kani_clock::stub_now)]
    fn vk_c14_unsol_series() {
        let mut s = vs::make_session();
        let mut db = DatabaseHandle::new(None, ClassZeroConfig::default(), EventBufferConfig::no_events());
        let mut reader = TransportReader::outstation(
            crate::link::reader::LinkModes::stream(crate::link::LinkErrorMode::Close),
            crate::app::parse::options::ParseOptions::parse_everything(),
            EndpointAddress::raw(1024), Feature::Disabled, 249);
        let mut wsh = tw::WriterShell::new();
        let mut iosh = io::IoShell::new();
        let limit: Option<usize> = if kani::any() { Some(kani::any()) } else { None };
        s.config.max_unsolicited_retries = limit;
        let script: [u8; MAX_W] = kani::any();
        let adv: [u32; MAX_W] = kani::any();
        kani::assume(script[0] <= 4 && script[1] <= 4 && script[2] <= 4 && adv[0] < 100_000 && adv[1] < 100_000 && adv[2] < 100_000);
        let deferred: bool = kani::any();
        let iin: (u8, u8) = kani::any();
        let fail: bool = kani::any();
        unsafe { W_CALLS = 0; W_SCRIPT = script; W_ADVANCE = adv; DEFERRED_SET = deferred; tx::RET_IIN = iin; tx::IIN_CALLS = 0; }
        tw::arm(fail);
        let (_t0, s0, n0) = clk::any_instant();
        clk::set_now(s0, n0);
        let mut resp = tx::any_sol_response();
        let is_null: bool = kani::any();
        let probe: usize = kani::any();
        kani::assume(probe >= 4 && probe < 249);
        let probe_val: u8 = kani::any();
        { let mut c = s.unsol_tx_buffer.write_cursor(); let _ = c.skip(probe); let _ = c.write_u8(probe_val); }
        unsafe { tw::PROBE = probe; }
        let dest = s.destination.link.raw_value();

        let r = io::run(s.perform_unsolicited_response_series(&mut db, resp, is_null, iosh.get(), &mut reader, wsh.get()));
        let r = match r { None => { assert!(false); return; } Some(r) => r };
        let (waits, writes, iins) = unsafe { (W_CALLS, tw::CALLS, tx::IIN_CALLS) };
        assert!(iins == 1 && writes >= 1);
        // the fragment as first transmitted
        let mut first = resp;
        first.header.iin = Iin::new(Iin1::new(resp.header.iin.iin1.value | iin.0), Iin2::new(resp.header.iin.iin2.value | iin.1));
        if fail {
            assert!(r.is_err() && writes == 1 && waits == 0);
        } else {
            assert!(waits >= 1);
            // every (re)transmission is the first fragment, to the configured master
            assert!(tx::sent_is(&first, dest, probe, probe_val));
            assert!(unsafe { tw::FIRST4 } == [first.header.control.to_u8(), tx::fn_byte(first.header.function), first.header.iin.iin1.value, first.header.iin.iin2.value]);
            // replay the rules over the executed prefix of the script
            let mut retries_done: usize = 0;
            let mut k: usize = 0;
            let mut timer_from = (s0, n0);
            let mut expected: u8 = 255;      // 255 = ran out of script (path was cut)
            while k < waits {
                assert!(unsafe { W_ECSN[k] } == resp.header.control.seq.value());
                assert!(unsafe { W_WRITES[k] } == 1 + retries_done);
                assert!(unsafe { W_DEADLINE[k] }.unwrap().checked_duration_since(clk::mk_instant(timer_from.0, timer_from.1)) == Some(std::time::Duration::from_secs(5)));
                match script[k] {
                    0 => {
                        let allowed = !is_null && !deferred && match limit { None => true, Some(n) => retries_done < n };
                        if !allowed { expected = 0; assert!(k + 1 == waits); break; }
                        retries_done += 1;
                        // the timer restarts at the moment of the retransmission
                        timer_from = (unsafe { W_NOW[k] }.0 + adv[k] as i64, unsafe { W_NOW[k] }.1);
                    }
                    1 => {}
                    c => { expected = c; assert!(k + 1 == waits); break; }
                }
                k += 1;
            }
            assert!(expected != 255);
            assert!(res_code(&r) == expected);
            assert!(writes == 1 + retries_done);
            kani::cover!(retries_done == 2);
            kani::cover!(expected == 0 && retries_done == 1 && limit == Some(1));
            kani::cover!(expected == 0 && is_null);
            kani::cover!(expected == 2 && waits == 3);
        }
        std::mem::forget(s); std::mem::forget(db); std::mem::forget(reader);
    }

    // ------------------------------------------------------------------ scripted perform_unsolicited_response_series
    pub(crate) static mut S_CALLS: usize = 0;
    pub(crate) static mut S_RESULT: u8 = 0;            // 0 timeout, 2 confirmed, 3 return to idle, 4 link error
    pub(crate) static mut S_NULL: bool = false;
    pub(crate) static mut S_RESP: Option<Response> = None;
    pub(crate) static mut S_AT: usize = 0;
    pub(crate) static mut S_ADVANCE: u32 = 0;
    pub(crate) fn scripted_series(response: &Response, is_null: bool) -> Option<Result<UnsolicitedResult, RunError>> {
        unsafe {
            S_CALLS += 1; S_NULL = is_null; S_RESP = Some(*response); S_AT = tw::tick();
            clk::NOW.0 += S_ADVANCE as i64;
            Some(match S_RESULT {
                0 => Ok(UnsolicitedResult::Timeout),
                2 => Ok(UnsolicitedResult::Confirmed),
                3 => Ok(UnsolicitedResult::ReturnToIdle),
                _ => Err(RunError::Link(LinkError::Stdio(std::io::ErrorKind::BrokenPipe))),
            })
        }
    }
    use crate::outstation::session::verif_kani_c11c12_session as cs;   // logged contract stub of DatabaseHandle::write_unsolicited

    // @harness ids=C14,C03,C01 tier=quick kind=proof stubs=1 units=outstation::session::OutstationSession::check_unsolicited,outstation::session::OutstationSession::perform_null_unsolicited,outstation::session::OutstationSession::maybe_perform_unsolicited,outstation::session::OutstationSession::write_unsolicited_data timeout=900 note="one pass of the unsolicited state machine from ANY state: nothing is sent when unsolicited support is off; until a null response has been CONFIRMED only empty unsolicited responses are produced (size 0, FIR FIN CON UNS, a fresh sequence number each time) and the state stays NullRequired on timeout AND on return-to-idle; once ready, nothing starts before the retry deadline, nothing is selected when no class is enabled, the events are selected for exactly the enabled classes, no response and no sequence number is consumed when there is nothing to send; after a series ends without confirmation the next one may start no sooner than now + retry delay and NOTHING is released; written events are released exactly once, only after Confirmed"
    #[kani::proof]
    #[kani::unwind(4)]
    #[kani::stub(crate::outstation::session::verif_kani_hooks::hook_series, scripted_series)]
    #[kani::stub(DatabaseHandle::write_unsolicited, DatabaseHandle::stub_write_unsolicited)]
    #[kani::stub(tokio::time::Instant::now, crate::util::verif_kani_clock::stub_now)]
    fn vk_c14_check_unsolicited() {
        let mut s = vs::make_session();
        let mut db = DatabaseHandle::new(None, ClassZeroConfig::default(), EventBufferConfig::no_events());
        let mut reader = TransportReader::outstation(
            crate::link::reader::LinkModes::stream(crate::link::LinkErrorMode::Close),
            crate::app::parse::options::ParseOptions::parse_everything(),
            EndpointAddress::raw(1024), Feature::Disabled, 249);
        let mut wsh = tw::WriterShell::new();
        let mut iosh = io::IoShell::new();
        tw::arm(false);
        dbs::arm();
        let (_t0, s0, n0) = clk::any_instant();
        clk::set_now(s0, n0);
        let st: u8 = kani::any();
        kani::assume(st <= 2);
        let (dl, ds, dn) = clk::any_instant();
        s.state.unsolicited = match st { 0 => UnsolicitedState::NullRequired, 1 => UnsolicitedState::Ready(None), _ => UnsolicitedState::Ready(Some(dl)) };
        let classes: (bool, bool, bool) = kani::any();
        s.state.enabled_unsolicited_classes = EventClasses::new(classes.0, classes.1, classes.2);
        let seq0: u8 = kani::any::<u8>() & 0x0F;
        s.state.unsolicited_seq = Sequence::new(seq0);
        let result: u8 = kani::any();
        kani::assume(result == 0 || result == 2 || result == 3 || result == 4);
        let count: usize = kani::any();
        let len: usize = kani::any();
        kani::assume(len <= 245);
        let adv: u32 = kani::any();
        kani::assume(adv < 100_000);
        unsafe { S_CALLS = 0; S_RESULT = result; S_RESP = None; S_ADVANCE = adv; cs::WR_CALLS = 0; cs::WU_COUNT = count; cs::WR_ADV = len; }
        let supported = s.config.unsolicited.is_enabled();

        let r = io::run(s.check_unsolicited(iosh.get(), &mut reader, wsh.get(), &mut db));
        let r = match r { None => { assert!(false); return; } Some(r) => r };
        let (series, wus, clears) = unsafe { (S_CALLS, cs::WR_CALLS, dbs::CLEAR_CALLS) };
        let seq_now = s.state.unsolicited_seq.value();
        let not_yet = st == 2 && (s0 < ds || (s0 == ds && n0 < dn));
        let st_now: u8 = match s.state.unsolicited { UnsolicitedState::NullRequired => 0, UnsolicitedState::Ready(None) => 1, UnsolicitedState::Ready(Some(_)) => 2 };
        if !supported {
            assert!(series == 0 && wus == 0 && clears == 0 && seq_now == seq0 && st_now == st);
            assert!(matches!(r, Ok(NextIdleAction::SleepUntilEvent)));
        } else if st == 0 {
            // start-up: a null response with a fresh sequence number, nothing else
            assert!(series == 1 && wus == 0 && clears == 0 && unsafe { S_NULL });
            let resp = unsafe { S_RESP }.unwrap();
            assert!(resp.size == 0 && resp.header.function == ResponseFunction::UnsolicitedResponse && resp.header.iin == Iin::default());
            let c = resp.header.control;
            assert!(c.fir && c.fin && c.con && c.uns && c.seq.value() == seq0);
            assert!(seq_now == (seq0 + 1) & 0x0F);
            match result {
                4 => assert!(r.is_err() && st_now == 0),
                2 => assert!(matches!(r, Ok(NextIdleAction::NoSleep)) && st_now == 1),
                _ => assert!(matches!(r, Ok(NextIdleAction::NoSleep)) && st_now == 0),     // NOT confirmed: null still required
            }
            kani::cover!(result == 3);
        } else if not_yet {
            assert!(series == 0 && wus == 0 && clears == 0 && seq_now == seq0 && st_now == 2);
            match r { Ok(NextIdleAction::SleepUnit(t)) => assert!(t.checked_duration_since(dl) == Some(std::time::Duration::from_secs(0))), _ => assert!(false) }
        } else if !(classes.0 || classes.1 || classes.2) {
            assert!(series == 0 && wus == 0 && clears == 0 && seq_now == seq0);
            assert!(matches!(r, Ok(NextIdleAction::SleepUntilEvent)));
        } else {
            assert!(wus == 1 && unsafe { cs::WU_CLASSES } == classes);
            if count == 0 {
                assert!(series == 0 && clears == 0 && seq_now == seq0);
                assert!(matches!(r, Ok(NextIdleAction::SleepUntilEvent)));
            } else {
                assert!(series == 1 && !unsafe { S_NULL });
                let resp = unsafe { S_RESP }.unwrap();
                assert!(resp.size == 4 + len && resp.header.function == ResponseFunction::UnsolicitedResponse && resp.header.iin == Iin::default());
                let c = resp.header.control;
                assert!(c.fir && c.fin && c.con && c.uns && c.seq.value() == seq0);
                assert!(seq_now == (seq0 + 1) & 0x0F);
                match result {
                    4 => assert!(r.is_err() && clears == 0),
                    2 => {
                        assert!(clears == 1 && unsafe { dbs::CLEAR_AT[0] } > unsafe { S_AT });
                        assert!(matches!(r, Ok(NextIdleAction::NoSleep)) && st_now == 1);
                    }
                    _ => {
                        assert!(clears == 0 && st_now == 2);
                        let at = clk::mk_instant(s0 + adv as i64 + 1, n0);       // series end + retry delay (1 s in the harness session)
                        match (r, s.state.unsolicited) {
                            (Ok(NextIdleAction::SleepUnit(t)), UnsolicitedState::Ready(Some(u))) => {
                                assert!(t.checked_duration_since(at) == Some(std::time::Duration::from_secs(0)));
                                assert!(u.checked_duration_since(at) == Some(std::time::Duration::from_secs(0)));
                            }
                            _ => assert!(false),
                        }
                    }
                }
                kani::cover!(result == 2);
                kani::cover!(result == 3 && st == 2);
            }
        }
        std::mem::forget(s); std::mem::forget(db); std::mem::forget(reader);
    }
