    // Per-harness replaceable hooks for ASYNC callees (an async fn cannot be #[kani::stub]bed: opaque return types differ).
    // Under cfg(kani) the weaver inserts `if let Some(r) = hook_x(args) { return r; }` at the top of the async fn
    // (weave/inject/session_io.json). Each hook is a plain fn that returns None, so by default the REAL body runs and the
    // verified program is unchanged; a harness that wants the callee's contract instead of its body replaces the hook with
    // #[kani::stub(hook_x, its_scripted_version)] - resolved at compile time per harness (a run-time flag is not constant-
    // propagated by CBMC through the coroutine and makes it explore both bodies).
    pub(crate) fn hook_wait_uns(_uns_ecsn: Sequence, _deadline: tokio::time::Instant) -> Option<Result<UnsolicitedWaitResult, RunError>> { None }
    pub(crate) fn hook_series(_response: &Response, _is_null: bool) -> Option<Result<UnsolicitedResult, RunError>> { None }
    pub(crate) fn hook_handle_non_read(_function: FunctionCode, _seq: Sequence, _frame_id: u32) -> Option<Option<Response>> { None }
    pub(crate) fn hook_broadcast_action(_frame_id: u32) -> Option<BroadcastAction> { None }
