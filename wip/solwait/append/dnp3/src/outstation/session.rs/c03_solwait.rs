    // The solicited confirm wait (sol_confirm_wait + wait_for_sol_confirm, both real) under contract.
    //   * `read_until` (tokio timers + the whole receive path: Kani compiler crash) is replaced under cfg(kani) by
    //     `verif_read_until` through an early return woven at its top (weave/inject/session_io.json): a SCRIPTED outcome
    //     (timeout / a fragment is waiting / link error) that also advances the harness clock. It is the loop head of both
    //     loops, so the ghost history is checked there as well.
    //   * expect_sol_confirm, format_read_response, get_response_iin, DatabaseHandle::reset: logged contract stubs
    //     (#[kani::stub]); each is proved against its own contract on the real code by another harness.
    //   * clear_written_events, TransportWriter::write: logged stubs through woven early returns.
    use crate::outstation::session::verif_kani_session as vs;
    use crate::outstation::session::verif_kani_c05_sol_tx as tx;
    use crate::transport::verif_kani_tw as tw;
    use crate::outstation::database::verif_kani_dbstub as dbs;
    use crate::util::phys::verif_kani_io as io;
    use crate::util::verif_kani_clock as clk;
    use crate::outstation::database::{ClassZeroConfig, EventBufferConfig};
    use crate::util::phys::PhysAddr;

    pub(crate) const MAX_READS: usize = 2;
    pub(crate) static mut READS: usize = 0;
    pub(crate) static mut READ_SCRIPT: [u8; MAX_READS] = [0; MAX_READS];          // 0 timeout, 1 fragment waiting, 2 link error
    pub(crate) static mut READ_ADVANCE: [u32; MAX_READS] = [0; MAX_READS];        // seconds that pass during each read
    pub(crate) static mut READ_AT: [usize; MAX_READS] = [0; MAX_READS];
    pub(crate) static mut READ_NOW: [(i64, u32); MAX_READS] = [(0, 0); MAX_READS]; // clock when the wait began
    pub(crate) static mut DEADLINE: [Option<tokio::time::Instant>; MAX_READS] = [None; MAX_READS];

    pub(crate) fn verif_read_until(deadline: tokio::time::Instant) -> Result<TimeoutStatus, RunError> {
        unsafe {
            if READS >= MAX_READS { kani::assume(false); }
            let k = READS;
            READS += 1;
            READ_AT[k] = tw::tick();
            READ_NOW[k] = clk::NOW;
            DEADLINE[k] = Some(deadline);
            clk::NOW.0 += READ_ADVANCE[k] as i64;
            match READ_SCRIPT[k] {
                0 => Ok(TimeoutStatus::Yes),
                1 => Ok(TimeoutStatus::No),
                _ => Err(RunError::Link(LinkError::Stdio(std::io::ErrorKind::BrokenPipe))),
            }
        }
    }

    pub(crate) static mut ACT_KIND: [u8; MAX_READS] = [0; MAX_READS];   // 0 confirmed, 1 new request, 2 echo, 3 continue
    pub(crate) static mut ACT_ADDR: u16 = 0;
    pub(crate) static mut ACT_RESP: Option<Response> = None;
    pub(crate) static mut EXPECT_CALLS: usize = 0;
    pub(crate) static mut EXPECT_ECSN: [u8; MAX_READS] = [0; MAX_READS];
    pub(crate) static mut FMT_CALLS: usize = 0;
    pub(crate) static mut FMT_AT: [usize; MAX_READS] = [0; MAX_READS];
    pub(crate) static mut FMT_ARGS: [(bool, u8, u8); MAX_READS] = [(false, 0, 0); MAX_READS];
    pub(crate) static mut FMT_RESP: Option<Response> = None;
    pub(crate) static mut FMT_NEXT: Option<(u8, bool)> = None;

    impl OutstationSession {
        /// contract stub of expect_sol_confirm (proved by vk_c11_expect_sol_confirm): ANY of the four actions
        pub(crate) fn stub_expect_sol_confirm(&mut self, ecsn: Sequence, _request: &mut RequestGuard) -> ConfirmAction {
            unsafe {
                let k = EXPECT_CALLS;
                EXPECT_CALLS += 1;
                if k >= MAX_READS { kani::assume(false); }
                EXPECT_ECSN[k] = ecsn.value();
                let addr = FragmentAddr { link: EndpointAddress::raw(ACT_ADDR), phys: PhysAddr::None };
                match ACT_KIND[k] {
                    0 => ConfirmAction::Confirmed(addr),
                    1 => ConfirmAction::NewRequest,
                    2 => ConfirmAction::EchoLastResponse(addr, ACT_RESP),
                    _ => ConfirmAction::ContinueWait,
                }
            }
        }
        /// contract stub of format_read_response (proved by the C11 harnesses): ANY response and continuation
        pub(crate) fn stub_format_read_response(&mut self, _database: &mut DatabaseHandle, fir: bool, seq: Sequence, iin2: Iin2) -> (Response, Option<ResponseSeries>) {
            unsafe {
                let k = FMT_CALLS;
                FMT_CALLS += 1;
                if k >= MAX_READS { kani::assume(false); }
                FMT_AT[k] = tw::tick();
                FMT_ARGS[k] = (fir, seq.value(), iin2.value);
                let next = match FMT_NEXT { Some((e, f)) => Some(ResponseSeries::new(Sequence::new(e), f)), None => None };
                (FMT_RESP.unwrap(), next)
            }
        }
    }

    fn same_lvr(a: &Option<LastValidRequest>, b: &Option<LastValidRequest>) -> bool {
        match (a, b) {
            (None, None) => true,
            (Some(x), Some(y)) => x.seq == y.seq && x.request_hash == y.request_hash
                && match (x.response, y.response) { (None, None) => true, (Some(p), Some(q)) => p.header == q.header && p.size == q.size, _ => false }
                && match (x.series, y.series) { (None, None) => true, (Some(p), Some(q)) => p == q, _ => false },
            _ => false,
        }
    }

    // @harness ids=C03,C11,C13,C05,C12,C01 tier=quick kind=bounded bound="at most 2 fragments/timeouts read per run (the third read is cut off); every loop iteration starts from symbolic loop-carried state (series, deadline, pending broadcast, stored request)" stubs=1 units=outstation::session::OutstationSession::sol_confirm_wait,outstation::session::OutstationSession::wait_for_sol_confirm,outstation::session::OutstationSession::write_solicited,outstation::session::OutstationSession::repeat_solicited timeout=1200 note="solicited confirm wait: written events are released (clear_written_events) exactly once per CONFIRM that expect_sol_confirm accepted, never otherwise, and BEFORE the next fragment of the series is formatted; the next fragment is formatted with FIR=0, the next sequence number and no IIN2 bits, and transmitted to the confirming master; on confirm timeout and on a new request the selection is reset exactly once and nothing is released; an echo re-sends exactly the stored response and restarts the confirm timer, an ignored fragment does not; the stored last request is left untouched; a confirmed response clears the pending broadcast indication; link errors are propagated"
    #[kani::proof]
    #[kani::unwind(4)]
    #[kani::stub(OutstationSession::get_response_iin, OutstationSession::stub_get_response_iin)]
    #[kani::stub(OutstationSession::expect_sol_confirm, OutstationSession::stub_expect_sol_confirm)]
    #[kani::stub(OutstationSession::format_read_response, OutstationSession::stub_format_read_response)]
    #[kani::stub(DatabaseHandle::reset, DatabaseHandle::stub_reset)]
    #[kani::stub(tokio::time::Instant::now, crate::util::verif_kani_clock::stub_now)]
    fn vk_c03_sol_confirm_wait() {
        use crate::transport::verif_kani_c07_pop_request as pr;
        use crate::transport::real::assembler::verif_kani_c07_helpers as ah;
        use crate::transport::real::reader::verif_kani_c07_helpers as rh;
        let mut s = vs::make_session();
        let mut db = DatabaseHandle::new(None, ClassZeroConfig::default(), EventBufferConfig::no_events());
        let mut reader = TransportReader::outstation(
            crate::link::reader::LinkModes::stream(crate::link::LinkErrorMode::Close),
            crate::app::parse::options::ParseOptions::parse_everything(),
            EndpointAddress::raw(1024), Feature::Disabled, 249);
        let mut wsh = tw::WriterShell::new();
        let mut iosh = io::IoShell::new();
        // ---- script
        let script: [u8; MAX_READS] = kani::any();
        let acts: [u8; MAX_READS] = kani::any();
        let adv: [u32; MAX_READS] = kani::any();
        kani::assume(script[0] <= 2 && script[1] <= 2 && acts[0] <= 3 && acts[1] <= 3 && adv[0] < 100_000 && adv[1] < 100_000);
        let addr: u16 = kani::any();
        let echo_resp = if kani::any() { Some(tx::any_sol_response()) } else { None };
        let fmt_resp = tx::any_sol_response();
        let fmt_next: Option<(u8, bool)> = if kani::any() { Some((kani::any::<u8>() & 0x0F, kani::any())) } else { None };
        let iin: (u8, u8) = kani::any();
        let fail: bool = kani::any();
        unsafe {
            READS = 0; READ_SCRIPT = script; READ_ADVANCE = adv; DEADLINE = [None; MAX_READS];
            ACT_KIND = acts; ACT_ADDR = addr; ACT_RESP = echo_resp; EXPECT_CALLS = 0;
            FMT_CALLS = 0; FMT_RESP = Some(fmt_resp); FMT_NEXT = fmt_next;
            tx::RET_IIN = iin; tx::IIN_CALLS = 0;
        }
        tw::arm(fail);
        dbs::arm();
        let (_t0, s0, n0) = clk::any_instant();
        clk::set_now(s0, n0);
        // ---- symbolic session state the loops read
        let ecsn0: u8 = kani::any::<u8>() & 0x0F;
        let series = ResponseSeries::new(Sequence::new(ecsn0), kani::any());
        s.state.last_broadcast_type = tx::any_bcast();
        let lvr = if kani::any() {
            Some(LastValidRequest::new(Sequence::new(kani::any()), kani::any(), if kani::any() { Some(tx::any_sol_response()) } else { None }, if kani::any() { Some(ResponseSeries::new(Sequence::new(kani::any()), kani::any())) } else { None }))
        } else { None };
        s.state.last_valid_request = lvr;
        let probe: usize = kani::any();
        kani::assume(probe >= 4 && probe < 249);
        let probe_val: u8 = kani::any();
        { let mut c = s.sol_tx_buffer.write_cursor(); let _ = c.skip(probe); let _ = c.write_u8(probe_val); }
        unsafe { tw::PROBE = probe; }

        let r = io::run(s.sol_confirm_wait(iosh.get(), &mut reader, wsh.get(), &mut db, series));

        // ---- the history, from the ghost logs
        let (reads, expects, fmts, clears, resets, writes) = unsafe { (READS, EXPECT_CALLS, FMT_CALLS, dbs::CLEAR_CALLS, dbs::RESET_CALLS, tw::CALLS) };
        let r = match r { None => { assert!(false); return; } Some(r) => r };
        assert!(reads >= 1);
        // what happened at read k: 0 timeout, 1 link error, 2.. = 2 + action
        let ev = |k: usize| -> u8 { match script[k] { 0 => 0, 2 => 1, _ => 2 + acts[k] } };
        let e0 = ev(0);
        // number of accepted confirms in the history that was actually executed
        let confirms = (if e0 == 2 { 1 } else { 0 }) + (if reads == 2 && ev(1) == 2 { 1 } else { 0 });
        assert!(clears == confirms);                                   // released once per accepted confirm, never otherwise
        assert!(expects <= reads);
        let last = ev(reads - 1);
        // the run ended at read `reads`: classify the exit
        let ended_by_timeout_or_new = r.is_ok() && (last == 0 || last == 3);
        assert!(resets == if ended_by_timeout_or_new { 1 } else { 0 });
        if ended_by_timeout_or_new {
            assert!(unsafe { dbs::RESET_AT } > unsafe { READ_AT[reads - 1] });
        }
        if last == 1 { assert!(r.is_err()); }
        // the stored request is never touched by the wait
        assert!(same_lvr(&s.state.last_valid_request, &lvr));
        // ---- first read
        assert!(unsafe { DEADLINE[0] }.unwrap().checked_duration_since(clk::mk_instant(s0, n0)) == Some(std::time::Duration::from_secs(5)));
        if script[0] == 1 { assert!(unsafe { EXPECT_ECSN[0] } == ecsn0); }
        let next_seq = (ecsn0 + 1) & 0x0F;
        if e0 == 2 {
            // confirmed: release first, then (unless FIN) format the next fragment and send it to the confirming master
            assert!(s.state.last_broadcast_type.is_none() || fmts > 0);
            if series.fin {
                assert!(fmts == 0 && writes == 0 && reads == 1 && r.is_ok());
            } else {
                assert!(fmts >= 1 && writes >= 1);
                assert!(unsafe { dbs::CLEAR_AT[0] } < unsafe { FMT_AT[0] });
                assert!(unsafe { FMT_ARGS[0] } == (false, next_seq, 0));
                if reads == 1 {
                    assert!(fmts == 1 && writes == 1);
                    assert!(unsafe { tw::LAST_AT } > unsafe { FMT_AT[0] });
                    let mut expect = fmt_resp;
                    expect.header.iin = Iin::new(Iin1::new(fmt_resp.header.iin.iin1.value | iin.0), Iin2::new(fmt_resp.header.iin.iin2.value | iin.1));
                    assert!(tx::sent_is(&expect, addr, probe, probe_val));
                    assert!(r.is_err() == fail);
                    if !fail { assert!(fmt_next.is_none()); }
                } else {
                    // the series went on: the second wait is for the continuation's sequence number, with a fresh timer
                    assert!(!fail && fmt_next.is_some());
                    let now1 = unsafe { READ_NOW[1] };
                    assert!(now1 == (s0 + adv[0] as i64, n0));
                    assert!(unsafe { DEADLINE[1] }.unwrap().checked_duration_since(clk::mk_instant(now1.0, now1.1)) == Some(std::time::Duration::from_secs(5)));
                    if script[1] == 1 { assert!(unsafe { EXPECT_ECSN[1] } == fmt_next.unwrap().0); }
                }
            }
            kani::cover!(series.fin);
            kani::cover!(!series.fin && reads == 2 && ev(1) == 0);
            kani::cover!(!series.fin && reads == 1 && !fail);
        } else if e0 == 4 {
            // echo: exactly the stored response, then a restarted timer
            match echo_resp {
                Some(er) => {
                    assert!(writes >= 1);
                    if reads == 1 { assert!(fail && r.is_err()); }
                    if reads == 2 && ev(1) != 2 && ev(1) != 4 { assert!(writes == 1 && tx::sent_is(&er, addr, probe, probe_val)); }
                }
                None => assert!(reads == 2),
            }
            if reads == 2 {
                let now1 = unsafe { READ_NOW[1] };
                assert!(unsafe { DEADLINE[1] }.unwrap().checked_duration_since(clk::mk_instant(now1.0, now1.1)) == Some(std::time::Duration::from_secs(5)));
                if script[1] == 1 { assert!(unsafe { EXPECT_ECSN[1] } == ecsn0); }
            }
            kani::cover!(reads == 2 && echo_resp.is_some() && ev(1) == 0);
        } else if e0 == 5 {
            // ignored fragment: keep waiting for the same confirm until the SAME deadline
            assert!(reads == 2 && writes == if ev(1) == 4 && echo_resp.is_some() { 1 } else if ev(1) == 2 && !series.fin { 1 } else { 0 });
            assert!(unsafe { DEADLINE[1] }.unwrap().checked_duration_since(unsafe { DEADLINE[0] }.unwrap()) == Some(std::time::Duration::from_secs(0)));
            if script[1] == 1 { assert!(unsafe { EXPECT_ECSN[1] } == ecsn0); }
            kani::cover!(ev(1) == 0);
            kani::cover!(ev(1) == 2);
        } else {
            // timeout, link error or new request at once
            assert!(reads == 1 && fmts == 0 && writes == 0 && clears == 0);
            kani::cover!(e0 == 0);
            kani::cover!(e0 == 3);
            kani::cover!(e0 == 1);
        }
        std::mem::forget(s); std::mem::forget(db); std::mem::forget(reader);
    }
