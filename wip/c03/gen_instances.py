#!/usr/bin/env python3
"""Regenerates the per-instance harness lists below the //@@INSTANCES@@ marker of the C03 fragments.
One harness per (operation, capacity, storage length L, free-stack length F): container lengths must be concrete for CBMC."""
import os, re, sys

ROOT = os.path.dirname(os.path.abspath(__file__))
LIST = os.path.join(ROOT, "append/dnp3/src/outstation/database/details/event/list.rs/c03_list.rs")
BUF = os.path.join(ROOT, "append/dnp3/src/outstation/database/details/event/buffer.rs/c03_buffer.rs")
MARK = "//@@INSTANCES@@"
P = "outstation::database::details::event::"


def regen(path, text):
    s = open(path).read()
    i = s.index(MARK)
    open(path, "w").write(s[:i] + MARK + "\n" + text)


def pairs(cap):
    return [(l, f) for l in range(cap + 1) for f in range(l + 1)]


def list_instances():
    ops = [
        ("add", "add_contract", "list::VecList::add", "add appends at the tail under a fresh handle, earlier elements keep order/handle/data; a full list refuses and is unchanged; invariant restored"),
        ("remove_at", "remove_at_contract", "list::VecList::remove_at", "for every handle value: removes exactly the addressed element iff the slot is live and the version matches, order of the others unchanged, else nothing changes; invariant restored"),
        ("remove_first", "remove_first_contract", "list::VecList::remove_first,list::VecList::find_first", "for every predicate (symbolic truth table): removes exactly the oldest matching element and returns its data, None and unchanged iff none matches; invariant restored"),
        ("remove_all", "remove_all_contract", "list::VecList::remove_all", "for every predicate: asks it once per element oldest first, removes exactly the matching ones, survivors keep order/handle/data, returns the number removed; invariant restored"),
        ("iter", "iter_contract", "list::VecList::iter,list::ListIterator::next,list::VecList::find_first,list::VecList::len,list::VecList::is_full", "iteration yields exactly the live elements oldest first with their handles; find_first returns the oldest match; nothing changes"),
    ]
    out = []
    for cap, tier in ((3, "quick"), (2, "thorough"), (4, "thorough")):
        for (l, f) in pairs(cap):
            for short, fn, units, note in ops:
                units_full = ",".join(P + u for u in units.split(","))
                name = "vk_c03_list_%s_c%d_l%d_f%d" % (short, cap, l, f)
                out.append('    // @harness ids=C03,C01 tier=%s kind=bounded bound="capacity=%d (storage length %d, free-stack length %d; all contents, links, versions symbolic under the invariant)" units=%s timeout=200 note="%s"' % (tier, cap, l, f, units_full, note))
                out.append("    list_harness!(%s, %s, %d, %d, %d);" % (name, fn, cap, l, f))
    return "\n".join(out) + "\n"


if __name__ == "__main__":
    regen(LIST, list_instances())
    if os.path.exists(BUF):
        import gen_buffer
        regen(BUF, gen_buffer.instances())
