#!/usr/bin/env python3
"""dev loop: re-weave only the C03 fragments into a kept scratch copy and run the named harnesses directly.
usage: dev.py <scratch> <timeout_s> <jobs> <harness-regex> [extra cargo-kani args...]"""
import os, re, subprocess, sys, time
sys.path.insert(0, "/verif/bin")
os.environ["VERIF_WIP"] = "/verif/wip/c03"
import vlib

scratch, to, jobs, rx = sys.argv[1], int(sys.argv[2]), int(sys.argv[3]), sys.argv[4]
extra = sys.argv[5:]
src = os.path.join(scratch, "src")
repo = os.environ.get("VERIF_REPO", "/repo")
targets = {}
for frag, target in vlib.list_fragments():
    targets.setdefault(target, []).append(frag)
for target, frags in targets.items():
    if "event/" not in target:
        continue
    body = open(os.path.join(repo, target)).read()
    for frag in frags:
        body += ("\n\n#[cfg(kani)]\n#[allow(unused_imports, dead_code, unused_variables, unused_mut, static_mut_refs, clippy::all)]\n"
                 "pub(crate) mod %s {\n    use super::*;\n%s\n}\n" % (vlib.frag_mod_name(frag), open(frag).read()))
    open(os.path.join(src, target), "w").write(body)
# specs
lib = open(os.path.join(repo, "dnp3/src/lib.rs")).read()
lib += "\n\n#[cfg(kani)]\n#[allow(unused_imports, dead_code, unused_variables, clippy::all)]\npub(crate) mod verif_spec {\n"
for d in ("/verif/specs", "/verif/wip/c03/specs"):
    for f in sorted(os.listdir(d)):
        if f.endswith(".rs"):
            lib += open(os.path.join(d, f)).read()
lib += "\n}\n"
open(os.path.join(src, "dnp3/src/lib.rs"), "w").write(lib)
hs = [h for h in vlib.load_harnesses() if re.search(rx, h.name)]
for h in hs:
    h.timeout = to
if not hs:
    sys.exit("no harness matches")
out, rc, wall, cmd = vlib.run_kani(src, hs, jobs=jobs, extra=extra, logfile=os.path.join(scratch, "dev.log"))
res = vlib.parse_kani_output(out)
if not res:
    print("\n".join([l for l in out.split("\n") if l.startswith("error") or l.startswith("  -->") or l.startswith(" -->")][:40]))
    print("see", os.path.join(scratch, "dev.log"))
for h in hs:
    r = res.get(h.full_name())
    if r is None:
        print("%-50s no result" % h.name); continue
    print("%-50s %-10s %6.1fs checks=%d failed=%d covers=%d/%d %s" % (h.name, r["verdict"], r["time"] or -1, r["total"], r["failed"], r["covers_sat"], r["covers_total"],
          "TIMEOUT" if r["timed_out"] else ""))
    for c in r["failed_checks"][:8]:
        print("      FAILED:", c["desc"][:160], "|", c["loc"][:200])
print("wall %.0fs" % wall)
