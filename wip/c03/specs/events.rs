// Spec functions for the outstation event store (C03 / C13), written from the property text:
// "events are reported oldest first", "released exactly once, only after a confirmed response carried them",
// "class bit set exactly when the buffer holds events of that class not part of a response awaiting confirmation".
// A store is seen as a sequence (oldest first) of at most EV_MAX records; per-record predicates are passed as flag arrays.
// Intersection of Rust and Verus syntax: every arithmetic result carries an explicit `as T`.

pub const EV_MAX: usize = 4usize;

/// record states: 0 = recorded, not part of any response (Unselected); 1 = chosen for the response being built (Selected);
/// 2 = carried by a response that awaits confirmation (Written)
pub const EV_UNSELECTED: u8 = 0u8;
pub const EV_SELECTED: u8 = 1u8;
pub const EV_WRITTEN: u8 = 2u8;

/// position in the OLD sequence of element `i` of the sequence obtained by deleting old position `k`
pub fn ev_skip(k: usize, i: usize) -> usize {
    if i < k { i } else { (i + 1usize) as usize }
}

/// number of set flags among positions < i
pub fn ev_rank(flags: &[bool; EV_MAX], i: usize) -> usize {
    let mut c: usize = 0usize;
    let mut j: usize = 0usize;
    while j < EV_MAX {
        if j < i && flags[j] { c = (c + 1usize) as usize; }
        j = (j + 1usize) as usize;
    }
    c
}

/// first position < n whose flag is set; n if there is none
pub fn ev_first(flags: &[bool; EV_MAX], n: usize) -> usize {
    let mut r: usize = n;
    let mut j: usize = EV_MAX;
    while j > 0usize {
        j = (j - 1usize) as usize;
        if j < n && flags[j] { r = j; }
    }
    r
}

/// "select at most `limit` of the candidates, oldest first": candidate i is taken iff fewer than `limit` candidates precede it
pub fn ev_taken(flags: &[bool; EV_MAX], i: usize, limit: usize) -> bool {
    flags[i] && ev_rank(flags, i) < limit
}

/// how many are taken: min(limit, number of candidates among the first n)
pub fn ev_taken_count(flags: &[bool; EV_MAX], n: usize, limit: usize) -> usize {
    let k: usize = ev_rank(flags, n);
    if k < limit { k } else { limit }
}

/// overflow indication after a confirmation: stays set iff it was set and some enabled type (max > 0) is still at capacity
pub fn ev_overflow_after_confirm(was_set: bool, any_type_at_capacity: bool) -> bool {
    was_set && any_type_at_capacity
}
