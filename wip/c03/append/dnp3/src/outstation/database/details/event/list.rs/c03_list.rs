    // C03 (serves C13, C01): one-step inductive contracts of the event store's container `VecList`.
    // Pre-state: ANY field-by-field symbolic state that satisfies the representation invariant `wf_view` below
    // (storage length L and free-stack length F fixed per const-generic instance, everything else symbolic).
    // Post-state: the invariant again AND the whole abstract view (sequence of (slot, version, data), oldest first)
    // changed exactly as the operation's contract says.
    use crate::verif_spec as spec;

    pub(crate) const MAXN: usize = spec::EV_MAX;
    pub(crate) const NOSLOT: usize = usize::MAX;

    /// abstract view: the live elements oldest first, each with the handle (slot, version) that addresses it
    #[derive(Copy, Clone)]
    pub(crate) struct View {
        pub(crate) n: usize,
        pub(crate) slot: [usize; MAXN],
        pub(crate) ver: [u64; MAXN],
    }

    /// read slot `cur` through concrete indices only (cheaper for the solver than a symbolic offset); cur must be < len
    fn meta_at<T>(l: &VecList<T>, cur: usize) -> (bool, MetaData) {
        let mut r = (true, MetaData { version: 0, prev: None, next: None });
        let len = l.storage.len();
        let mut i = 0;
        while i < MAXN {
            if i < len && i == cur { r = (l.storage[i].is_free, l.storage[i].metadata); }
            i += 1;
        }
        r
    }

    /// Representation invariant, written from the struct fields, and the abstract view it determines.
    ///  * storage has room for exactly CAP entries, L = storage.len() <= CAP
    ///  * the free stack holds exactly the slots < L flagged free, each once
    ///  * state = None iff no live element; otherwise size = L - F >= 1, and following `next` from `head` visits `size`
    ///    distinct live slots, ends in `tail` whose `next` is None, and every `prev` names the slot visited just before (None for head)
    ///  * every version stored in a slot is older than the list's next version (handles are never re-issued)
    pub(crate) fn wf_view<T, const CAP: usize>(l: &VecList<T>) -> (bool, View) {
        let mut v = View { n: 0, slot: [NOSLOT; MAXN], ver: [0; MAXN] };
        let len = l.storage.len();
        let f = l.free_stack.len();
        if !(CAP <= MAXN && l.storage.capacity() == CAP && len <= CAP && f <= len) {
            return (false, v);
        }
        let mut ok = true;
        let mut nfree: usize = 0;
        let mut i = 0;
        while i < CAP {
            if i < len {
                let e = &l.storage[i];
                if e.is_free { nfree += 1; }
                if !(e.metadata.version < l.version) { ok = false; }
            }
            i += 1;
        }
        if nfree != f { ok = false; }
        let mut a = 0;
        while a < CAP {
            if a < f {
                let x = l.free_stack[a];
                if x < len {
                    if !meta_at(l, x).0 { ok = false; }
                } else {
                    ok = false;
                }
                let mut b = 0;
                while b < a {
                    if l.free_stack[b] == x { ok = false; }
                    b += 1;
                }
            }
            a += 1;
        }
        match l.state {
            None => {
                if len != f { ok = false; }
            }
            Some(s) => {
                if s.size >= 1 && s.size <= CAP && s.size + f == len {
                    let mut cur = s.head;
                    let mut prev: Option<usize> = None;
                    let mut k = 0;
                    while k < CAP {
                        if ok && k < s.size {
                            let (cur_free, cur_meta) = meta_at(l, cur);
                            if cur < len && !cur_free {
                                if cur_meta.prev != prev { ok = false; }
                                let mut j = 0;
                                while j < k {
                                    if v.slot[j] == cur { ok = false; }
                                    j += 1;
                                }
                                v.slot[k] = cur;
                                v.ver[k] = cur_meta.version;
                                prev = Some(cur);
                                if k + 1 == s.size {
                                    if cur_meta.next.is_some() || cur != s.tail { ok = false; }
                                } else {
                                    match cur_meta.next {
                                        Some(nx) => cur = nx,
                                        None => ok = false,
                                    }
                                }
                            } else {
                                ok = false;
                            }
                        }
                        k += 1;
                    }
                    v.n = s.size;
                } else {
                    ok = false;
                }
            }
        }
        (ok, v)
    }

    /// field-by-field symbolic list: L storage entries (data from `mk`), F free-stack entries, links/flags/versions/state arbitrary
    pub(crate) fn build<T, const CAP: usize, const L: usize, const F: usize>(mut mk: impl FnMut() -> T) -> VecList<T> {
        let mut l: VecList<T> = VecList::new(CAP);
        let mut i = 0;
        while i < L {
            l.storage.push(Entry {
                data: mk(),
                is_free: kani::any(),
                metadata: MetaData { version: kani::any(), prev: kani::any(), next: kani::any() },
            });
            i += 1;
        }
        let mut j = 0;
        while j < F {
            l.free_stack.push_back(kani::any());
            j += 1;
        }
        l.version = kani::any();
        l.state = if kani::any() {
            Some(State { head: kani::any(), tail: kani::any(), size: kani::any() })
        } else {
            None
        };
        l
    }

    /// one CONCRETE well-formed layout per (L, F): slots 0..F-1 are free (free stack holds F-1, .., 0), the live elements are
    /// slots L-1 down to F in list order (oldest = slot L-1), so list order differs from slot order. Versions stay symbolic.
    /// Used by the EventBuffer harnesses whose control flow must not depend on symbolic links (clear_written); that the list
    /// operations behave the same for every layout is what the symbolic-layout contracts in this file prove.
    pub(crate) fn build_canonical<T, const CAP: usize, const L: usize, const F: usize>(mut mk: impl FnMut() -> T) -> VecList<T> {
        let mut l: VecList<T> = VecList::new(CAP);
        let mut i = 0;
        while i < L {
            let live = i >= F;
            l.storage.push(Entry {
                data: mk(),
                is_free: !live,
                metadata: MetaData {
                    version: kani::any(),
                    prev: if live && i + 1 < L { Some(i + 1) } else { None },
                    next: if live && i > F { Some(i - 1) } else { None },
                },
            });
            i += 1;
        }
        let mut j = F;
        while j > 0 {
            j -= 1;
            l.free_stack.push_back(j);
        }
        l.version = kani::any();
        l.state = if L > F { Some(State { head: L - 1, tail: F, size: L - F }) } else { None };
        l
    }

    pub(crate) fn data_at<T>(l: &VecList<T>, slot: usize) -> &T {
        &l.storage[slot].data
    }

    pub(crate) fn next_version<T>(l: &VecList<T>) -> u64 {
        l.version
    }

    pub(crate) fn storage_len<T>(l: &VecList<T>) -> usize {
        l.storage.len()
    }

    fn datas(l: &VecList<u8>, v: &View) -> [u8; MAXN] {
        let mut d = [0u8; MAXN];
        let mut i = 0;
        while i < MAXN {
            if i < v.n {
                let mut j = 0;
                while j < MAXN {
                    if j < l.storage.len() && j == v.slot[i] { d[i] = l.storage[j].data; }
                    j += 1;
                }
            }
            i += 1;
        }
        d
    }

    /// element i of `post` is element `j` of `pre` with the same handle and data
    fn same_elem(pre: &View, pd: &[u8; MAXN], j: usize, post: &View, qd: &[u8; MAXN], i: usize) -> bool {
        post.slot[i] == pre.slot[j] && post.ver[i] == pre.ver[j] && qd[i] == pd[j]
    }

    fn same_view(pre: &View, pd: &[u8; MAXN], post: &View, qd: &[u8; MAXN]) -> bool {
        let mut ok = post.n == pre.n;
        let mut i = 0;
        while i < MAXN {
            if i < pre.n && !same_elem(pre, pd, i, post, qd, i) { ok = false; }
            i += 1;
        }
        ok
    }

    /// post = pre with position k deleted, order and handles of the others unchanged
    fn view_minus(pre: &View, pd: &[u8; MAXN], k: usize, post: &View, qd: &[u8; MAXN]) -> bool {
        let mut ok = post.n + 1 == pre.n;
        let mut i = 0;
        while i < MAXN {
            if i + 1 < pre.n && !same_elem(pre, pd, spec::ev_skip(k, i), post, qd, i) { ok = false; }
            i += 1;
        }
        ok
    }

    /// an arbitrary predicate on u8, as far as at most MAXN distinct arguments can tell: symbolic (key -> answer) pairs, first
    /// matching key wins, symbolic default. Every predicate restricted to the <= MAXN element values is one of these.
    #[derive(Copy, Clone)]
    struct Pred { keys: [u8; MAXN], vals: [bool; MAXN], other: bool }
    impl Pred {
        fn any() -> Self { Pred { keys: kani::any(), vals: kani::any(), other: kani::any() } }
        fn eval(&self, x: u8) -> bool {
            let mut r = self.other;
            let mut i = MAXN;
            while i > 0 {
                i -= 1;
                if self.keys[i] == x { r = self.vals[i]; }
            }
            r
        }
    }

    fn any_wf<const CAP: usize, const L: usize, const F: usize>() -> (VecList<u8>, View, [u8; MAXN]) {
        let l = build::<u8, CAP, L, F>(|| kani::any());
        let (ok, v) = wf_view::<u8, CAP>(&l);
        kani::assume(ok); // @assume: representation invariant of the pre-state (inductive hypothesis)
        let d = datas(&l, &v);
        (l, v, d)
    }

    // ---- add: appends at the tail with a fresh handle, or fails when full leaving everything unchanged
    fn add_contract<const CAP: usize, const L: usize, const F: usize>() {
        let (mut l, pre, pd) = any_wf::<CAP, L, F>();
        kani::assume(l.version < u64::MAX); // @assume: fewer than 2^64-1 insertions so far (version counter has not wrapped)
        let v0 = l.version;
        let item: u8 = kani::any();
        let r = l.add(item);
        let (ok, post) = wf_view::<u8, CAP>(&l);
        assert!(ok, "add: representation invariant restored");
        let qd = datas(&l, &post);
        if pre.n == CAP {
            assert!(r.is_none(), "add: full list refuses");
            assert!(same_view(&pre, &pd, &post, &qd), "add: refused add leaves the sequence unchanged");
        } else {
            assert!(r.is_some(), "add: succeeds iff not full");
            let h = r.unwrap();
            assert!(post.n == pre.n + 1, "add: exactly one more element");
            let mut i = 0;
            while i < MAXN {
                if i < pre.n {
                    assert!(same_elem(&pre, &pd, i, &post, &qd, i), "add: earlier elements keep position, handle, data");
                }
                i += 1;
            }
            assert!(post.slot[pre.n] == h.value && post.ver[pre.n] == h.version && qd[pre.n] == item, "add: new element is last, addressed by the returned handle");
            assert!(h.version == v0, "add: handle carries a version no earlier handle had");
        }
        assert!(l.len() == post.n);
        kani::cover!(if L - F == CAP { r.is_none() } else { r.is_some() && post.n == L - F + 1 });
    }

    // ---- remove_at: removes exactly the addressed element iff slot is live and the version matches
    fn remove_at_contract<const CAP: usize, const L: usize, const F: usize>() {
        let (mut l, pre, pd) = any_wf::<CAP, L, F>();
        let idx = Index { version: kani::any(), value: kani::any() };
        let mut hit = MAXN;
        let mut i = 0;
        while i < MAXN {
            if i < pre.n && pre.slot[i] == idx.value && pre.ver[i] == idx.version { hit = i; }
            i += 1;
        }
        let r = l.remove_at(idx);
        let (ok, post) = wf_view::<u8, CAP>(&l);
        assert!(ok, "remove_at: representation invariant restored");
        let qd = datas(&l, &post);
        assert!(r == (hit < MAXN), "remove_at: true iff a live element has exactly this handle");
        if hit < MAXN {
            assert!(view_minus(&pre, &pd, hit, &post, &qd), "remove_at: exactly that element removed, others keep order/handles/data");
        } else {
            assert!(same_view(&pre, &pd, &post, &qd), "remove_at: stale or foreign handle changes nothing");
        }
        kani::cover!(if L - F > 0 { hit < MAXN && hit + 1 == pre.n } else { !r });
        kani::cover!(if L - F > 1 { hit == 0 } else { !r });
        kani::cover!(if L - F > 0 { !r && idx.value == pre.slot[0] } else { !r });
    }

    // ---- remove_first(pred): removes the oldest element satisfying pred and returns its data
    fn remove_first_contract<const CAP: usize, const L: usize, const F: usize>() {
        let (mut l, pre, pd) = any_wf::<CAP, L, F>();
        let table = Pred::any();
        let mut m = [false; MAXN];
        let mut i = 0;
        while i < MAXN {
            if i < pre.n { m[i] = table.eval(pd[i]); }
            i += 1;
        }
        let k = spec::ev_first(&m, pre.n);
        let r: Option<u8> = l.remove_first(|x| table.eval(*x)).copied();
        let (ok, post) = wf_view::<u8, CAP>(&l);
        assert!(ok, "remove_first: representation invariant restored");
        let qd = datas(&l, &post);
        if k < pre.n {
            assert!(r == Some(pd[k]), "remove_first: returns the data of the oldest match");
            assert!(view_minus(&pre, &pd, k, &post, &qd), "remove_first: exactly the oldest match removed");
        } else {
            assert!(r.is_none(), "remove_first: None iff nothing matches");
            assert!(same_view(&pre, &pd, &post, &qd), "remove_first: no match changes nothing");
        }
        kani::cover!(if L - F > 1 { k == 1 } else { true });
        kani::cover!(if L - F > 0 { k == 0 } else { r.is_none() });
        kani::cover!(k == pre.n);
    }

    // ---- remove_all(pred): removes exactly the elements for which pred answered true; pred is asked once per element, oldest first.
    // The answers are a concrete bit pattern per instance (MASK bit k = answer to the k-th question): with symbolic answers the
    // free stack's LENGTH becomes symbolic after the first removal and VecDeque::grow makes CBMC run out of time (measured).
    // All 2^size patterns are enumerated, so every predicate behaviour on a list of that size is covered.
    fn remove_all_contract<const CAP: usize, const L: usize, const F: usize, const MASK: usize>() {
        let (mut l, pre, pd) = any_wf::<CAP, L, F>();
        let mut asked = [0u8; MAXN];
        let mut n_asked: usize = 0;
        let r = l.remove_all(|x| {
            if n_asked < MAXN { asked[n_asked] = *x; }
            let answer = n_asked < MAXN && (MASK >> n_asked) & 1 == 1;
            n_asked += 1;
            answer
        });
        let (ok, post) = wf_view::<u8, CAP>(&l);
        assert!(ok, "remove_all: representation invariant restored");
        let qd = datas(&l, &post);
        assert!(n_asked == pre.n, "remove_all: predicate evaluated exactly once per element");
        let mut kept: usize = 0;
        let mut i = 0;
        while i < MAXN {
            if i < pre.n {
                assert!(asked[i] == pd[i], "remove_all: elements visited oldest first");
                if (MASK >> i) & 1 == 0 {
                    assert!(kept < post.n && same_elem(&pre, &pd, i, &post, &qd, kept), "remove_all: survivors keep order, handle, data");
                    kept += 1;
                }
            }
            i += 1;
        }
        assert!(post.n == kept, "remove_all: nothing but the survivors remains");
        assert!(r == pre.n - kept, "remove_all: returns the number removed");
        kani::cover!(r + post.n == L - F);
    }

    // ---- iteration / find_first: visits the sequence oldest first with the right handles; nothing changes
    fn iter_contract<const CAP: usize, const L: usize, const F: usize>() {
        let (l, pre, pd) = any_wf::<CAP, L, F>();
        let mut it = l.iter();
        let mut i = 0;
        while i < MAXN {
            if i < pre.n {
                match it.next() {
                    Some((h, d)) => assert!(h.value == pre.slot[i] && h.version == pre.ver[i] && *d == pd[i], "iter: i-th item is the i-th oldest element"),
                    None => assert!(false, "iter: ends early"),
                }
            }
            i += 1;
        }
        assert!(it.next().is_none(), "iter: ends after the last element");
        let table = Pred::any();
        let mut m = [false; MAXN];
        let mut j = 0;
        while j < MAXN {
            if j < pre.n { m[j] = table.eval(pd[j]); }
            j += 1;
        }
        let k = spec::ev_first(&m, pre.n);
        let f = l.find_first(&|x: &u8| table.eval(*x));
        match f {
            Some(h) => assert!(k < pre.n && h.value == pre.slot[k] && h.version == pre.ver[k], "find_first: handle of the oldest match"),
            None => assert!(k == pre.n, "find_first: None iff nothing matches"),
        }
        assert!(l.len() == pre.n && l.is_full() == (pre.n == CAP));
        let (ok, post) = wf_view::<u8, CAP>(&l);
        assert!(ok && same_view(&pre, &pd, &post, &datas(&l, &post)));
        kani::cover!(if L - F > 1 { k == 1 } else { k == pre.n });
    }

    // ---- base case: the empty list satisfies the invariant
    // @harness ids=C03,C01 tier=quick kind=proof units=outstation::database::details::event::list::VecList::new timeout=120 note="a new list of capacity 3 satisfies the representation invariant with an empty sequence (base case of the induction)"
    #[kani::proof]
    #[kani::unwind(6)]
    fn vk_c03_list_new() {
        let l: VecList<u8> = VecList::new(3);
        let (ok, v) = wf_view::<u8, 3>(&l);
        assert!(ok && v.n == 0 && l.len() == 0 && !l.is_full());
        assert!(l.iter().next().is_none());
        kani::cover!(ok);
    }

    // minisat: measured 2-3x faster than the default CaDiCaL on these instances (kissat 2x slower)
    macro_rules! list_harness {
        ($name:ident, $contract:ident, $cap:expr, $l:expr, $f:expr) => {
            #[kani::proof]
            #[kani::unwind(7)]
            #[kani::solver(minisat)]
            fn $name() {
                $contract::<$cap, $l, $f>();
            }
        };
        ($name:ident, $contract:ident, $cap:expr, $l:expr, $f:expr, $mask:expr) => {
            #[kani::proof]
            #[kani::unwind(7)]
            #[kani::solver(minisat)]
            fn $name() {
                $contract::<$cap, $l, $f, $mask>();
            }
        };
    }

//@@INSTANCES@@
    // @harness ids=C03,C01 tier=quick kind=bounded bound="capacity=3 (storage length 0, free-stack length 0; all contents, links, versions symbolic under the invariant)" units=outstation::database::details::event::list::VecList::add timeout=250 note="add appends at the tail under a fresh handle, earlier elements keep order/handle/data; a full list refuses and is unchanged; invariant restored"
    list_harness!(vk_c03_list_add_c3_l0_f0, add_contract, 3, 0, 0);
    // @harness ids=C03,C01 tier=thorough kind=bounded bound="capacity=3 (storage length 0, free-stack length 0; all contents, links, versions symbolic under the invariant)" units=outstation::database::details::event::list::VecList::remove_at timeout=250 note="for every handle value: removes exactly the addressed element iff the slot is live and the version matches, order of the others unchanged, else nothing changes; invariant restored"
    list_harness!(vk_c03_list_remove_at_c3_l0_f0, remove_at_contract, 3, 0, 0);
    // @harness ids=C03,C01 tier=thorough kind=bounded bound="capacity=3 (storage length 0, free-stack length 0; all contents, links, versions symbolic under the invariant)" units=outstation::database::details::event::list::VecList::remove_first,outstation::database::details::event::list::VecList::find_first timeout=250 note="for every predicate (symbolic truth table): removes exactly the oldest matching element and returns its data, None and unchanged iff none matches; invariant restored"
    list_harness!(vk_c03_list_remove_first_c3_l0_f0, remove_first_contract, 3, 0, 0);
    // @harness ids=C03,C01 tier=thorough kind=bounded bound="capacity=3 (storage length 0, free-stack length 0; all contents, links, versions symbolic under the invariant)" units=outstation::database::details::event::list::VecList::iter,outstation::database::details::event::list::ListIterator::next,outstation::database::details::event::list::VecList::find_first,outstation::database::details::event::list::VecList::len,outstation::database::details::event::list::VecList::is_full timeout=250 note="iteration yields exactly the live elements oldest first with their handles; find_first returns the oldest match; nothing changes"
    list_harness!(vk_c03_list_iter_c3_l0_f0, iter_contract, 3, 0, 0);
    // @harness ids=C03,C01 tier=thorough kind=bounded bound="capacity=3 (storage length 0, free-stack length 0, predicate answers = bits of 0; all contents, links, versions symbolic under the invariant)" units=outstation::database::details::event::list::VecList::remove_all timeout=250 note="the predicate is asked once per element oldest first; exactly the elements it accepts are removed, survivors keep order/handle/data; returns the number removed; invariant restored (all 2^size answer patterns enumerated)"
    list_harness!(vk_c03_list_remove_all_c3_l0_f0_m0, remove_all_contract, 3, 0, 0, 0);
    // @harness ids=C03,C01 tier=quick kind=bounded bound="capacity=3 (storage length 1, free-stack length 0; all contents, links, versions symbolic under the invariant)" units=outstation::database::details::event::list::VecList::add timeout=250 note="add appends at the tail under a fresh handle, earlier elements keep order/handle/data; a full list refuses and is unchanged; invariant restored"
    list_harness!(vk_c03_list_add_c3_l1_f0, add_contract, 3, 1, 0);
    // @harness ids=C03,C01 tier=thorough kind=bounded bound="capacity=3 (storage length 1, free-stack length 0; all contents, links, versions symbolic under the invariant)" units=outstation::database::details::event::list::VecList::remove_at timeout=250 note="for every handle value: removes exactly the addressed element iff the slot is live and the version matches, order of the others unchanged, else nothing changes; invariant restored"
    list_harness!(vk_c03_list_remove_at_c3_l1_f0, remove_at_contract, 3, 1, 0);
    // @harness ids=C03,C01 tier=thorough kind=bounded bound="capacity=3 (storage length 1, free-stack length 0; all contents, links, versions symbolic under the invariant)" units=outstation::database::details::event::list::VecList::remove_first,outstation::database::details::event::list::VecList::find_first timeout=250 note="for every predicate (symbolic truth table): removes exactly the oldest matching element and returns its data, None and unchanged iff none matches; invariant restored"
    list_harness!(vk_c03_list_remove_first_c3_l1_f0, remove_first_contract, 3, 1, 0);
    // @harness ids=C03,C01 tier=thorough kind=bounded bound="capacity=3 (storage length 1, free-stack length 0; all contents, links, versions symbolic under the invariant)" units=outstation::database::details::event::list::VecList::iter,outstation::database::details::event::list::ListIterator::next,outstation::database::details::event::list::VecList::find_first,outstation::database::details::event::list::VecList::len,outstation::database::details::event::list::VecList::is_full timeout=250 note="iteration yields exactly the live elements oldest first with their handles; find_first returns the oldest match; nothing changes"
    list_harness!(vk_c03_list_iter_c3_l1_f0, iter_contract, 3, 1, 0);
    // @harness ids=C03,C01 tier=thorough kind=bounded bound="capacity=3 (storage length 1, free-stack length 0, predicate answers = bits of 0; all contents, links, versions symbolic under the invariant)" units=outstation::database::details::event::list::VecList::remove_all timeout=250 note="the predicate is asked once per element oldest first; exactly the elements it accepts are removed, survivors keep order/handle/data; returns the number removed; invariant restored (all 2^size answer patterns enumerated)"
    list_harness!(vk_c03_list_remove_all_c3_l1_f0_m0, remove_all_contract, 3, 1, 0, 0);
    // @harness ids=C03,C01 tier=thorough kind=bounded bound="capacity=3 (storage length 1, free-stack length 0, predicate answers = bits of 1; all contents, links, versions symbolic under the invariant)" units=outstation::database::details::event::list::VecList::remove_all timeout=250 note="the predicate is asked once per element oldest first; exactly the elements it accepts are removed, survivors keep order/handle/data; returns the number removed; invariant restored (all 2^size answer patterns enumerated)"
    list_harness!(vk_c03_list_remove_all_c3_l1_f0_m1, remove_all_contract, 3, 1, 0, 1);
    // @harness ids=C03,C01 tier=quick kind=bounded bound="capacity=3 (storage length 1, free-stack length 1; all contents, links, versions symbolic under the invariant)" units=outstation::database::details::event::list::VecList::add timeout=250 note="add appends at the tail under a fresh handle, earlier elements keep order/handle/data; a full list refuses and is unchanged; invariant restored"
    list_harness!(vk_c03_list_add_c3_l1_f1, add_contract, 3, 1, 1);
    // @harness ids=C03,C01 tier=thorough kind=bounded bound="capacity=3 (storage length 1, free-stack length 1; all contents, links, versions symbolic under the invariant)" units=outstation::database::details::event::list::VecList::remove_at timeout=250 note="for every handle value: removes exactly the addressed element iff the slot is live and the version matches, order of the others unchanged, else nothing changes; invariant restored"
    list_harness!(vk_c03_list_remove_at_c3_l1_f1, remove_at_contract, 3, 1, 1);
    // @harness ids=C03,C01 tier=thorough kind=bounded bound="capacity=3 (storage length 1, free-stack length 1; all contents, links, versions symbolic under the invariant)" units=outstation::database::details::event::list::VecList::remove_first,outstation::database::details::event::list::VecList::find_first timeout=250 note="for every predicate (symbolic truth table): removes exactly the oldest matching element and returns its data, None and unchanged iff none matches; invariant restored"
    list_harness!(vk_c03_list_remove_first_c3_l1_f1, remove_first_contract, 3, 1, 1);
    // @harness ids=C03,C01 tier=thorough kind=bounded bound="capacity=3 (storage length 1, free-stack length 1; all contents, links, versions symbolic under the invariant)" units=outstation::database::details::event::list::VecList::iter,outstation::database::details::event::list::ListIterator::next,outstation::database::details::event::list::VecList::find_first,outstation::database::details::event::list::VecList::len,outstation::database::details::event::list::VecList::is_full timeout=250 note="iteration yields exactly the live elements oldest first with their handles; find_first returns the oldest match; nothing changes"
    list_harness!(vk_c03_list_iter_c3_l1_f1, iter_contract, 3, 1, 1);
    // @harness ids=C03,C01 tier=thorough kind=bounded bound="capacity=3 (storage length 1, free-stack length 1, predicate answers = bits of 0; all contents, links, versions symbolic under the invariant)" units=outstation::database::details::event::list::VecList::remove_all timeout=250 note="the predicate is asked once per element oldest first; exactly the elements it accepts are removed, survivors keep order/handle/data; returns the number removed; invariant restored (all 2^size answer patterns enumerated)"
    list_harness!(vk_c03_list_remove_all_c3_l1_f1_m0, remove_all_contract, 3, 1, 1, 0);
    // @harness ids=C03,C01 tier=quick kind=bounded bound="capacity=3 (storage length 2, free-stack length 0; all contents, links, versions symbolic under the invariant)" units=outstation::database::details::event::list::VecList::add timeout=250 note="add appends at the tail under a fresh handle, earlier elements keep order/handle/data; a full list refuses and is unchanged; invariant restored"
    list_harness!(vk_c03_list_add_c3_l2_f0, add_contract, 3, 2, 0);
    // @harness ids=C03,C01 tier=thorough kind=bounded bound="capacity=3 (storage length 2, free-stack length 0; all contents, links, versions symbolic under the invariant)" units=outstation::database::details::event::list::VecList::remove_at timeout=250 note="for every handle value: removes exactly the addressed element iff the slot is live and the version matches, order of the others unchanged, else nothing changes; invariant restored"
    list_harness!(vk_c03_list_remove_at_c3_l2_f0, remove_at_contract, 3, 2, 0);
    // @harness ids=C03,C01 tier=thorough kind=bounded bound="capacity=3 (storage length 2, free-stack length 0; all contents, links, versions symbolic under the invariant)" units=outstation::database::details::event::list::VecList::remove_first,outstation::database::details::event::list::VecList::find_first timeout=250 note="for every predicate (symbolic truth table): removes exactly the oldest matching element and returns its data, None and unchanged iff none matches; invariant restored"
    list_harness!(vk_c03_list_remove_first_c3_l2_f0, remove_first_contract, 3, 2, 0);
    // @harness ids=C03,C01 tier=thorough kind=bounded bound="capacity=3 (storage length 2, free-stack length 0; all contents, links, versions symbolic under the invariant)" units=outstation::database::details::event::list::VecList::iter,outstation::database::details::event::list::ListIterator::next,outstation::database::details::event::list::VecList::find_first,outstation::database::details::event::list::VecList::len,outstation::database::details::event::list::VecList::is_full timeout=250 note="iteration yields exactly the live elements oldest first with their handles; find_first returns the oldest match; nothing changes"
    list_harness!(vk_c03_list_iter_c3_l2_f0, iter_contract, 3, 2, 0);
    // @harness ids=C03,C01 tier=thorough kind=bounded bound="capacity=3 (storage length 2, free-stack length 0, predicate answers = bits of 0; all contents, links, versions symbolic under the invariant)" units=outstation::database::details::event::list::VecList::remove_all timeout=250 note="the predicate is asked once per element oldest first; exactly the elements it accepts are removed, survivors keep order/handle/data; returns the number removed; invariant restored (all 2^size answer patterns enumerated)"
    list_harness!(vk_c03_list_remove_all_c3_l2_f0_m0, remove_all_contract, 3, 2, 0, 0);
    // @harness ids=C03,C01 tier=thorough kind=bounded bound="capacity=3 (storage length 2, free-stack length 0, predicate answers = bits of 1; all contents, links, versions symbolic under the invariant)" units=outstation::database::details::event::list::VecList::remove_all timeout=250 note="the predicate is asked once per element oldest first; exactly the elements it accepts are removed, survivors keep order/handle/data; returns the number removed; invariant restored (all 2^size answer patterns enumerated)"
    list_harness!(vk_c03_list_remove_all_c3_l2_f0_m1, remove_all_contract, 3, 2, 0, 1);
    // @harness ids=C03,C01 tier=thorough kind=bounded bound="capacity=3 (storage length 2, free-stack length 0, predicate answers = bits of 2; all contents, links, versions symbolic under the invariant)" units=outstation::database::details::event::list::VecList::remove_all timeout=250 note="the predicate is asked once per element oldest first; exactly the elements it accepts are removed, survivors keep order/handle/data; returns the number removed; invariant restored (all 2^size answer patterns enumerated)"
    list_harness!(vk_c03_list_remove_all_c3_l2_f0_m2, remove_all_contract, 3, 2, 0, 2);
    // @harness ids=C03,C01 tier=thorough kind=bounded bound="capacity=3 (storage length 2, free-stack length 0, predicate answers = bits of 3; all contents, links, versions symbolic under the invariant)" units=outstation::database::details::event::list::VecList::remove_all timeout=250 note="the predicate is asked once per element oldest first; exactly the elements it accepts are removed, survivors keep order/handle/data; returns the number removed; invariant restored (all 2^size answer patterns enumerated)"
    list_harness!(vk_c03_list_remove_all_c3_l2_f0_m3, remove_all_contract, 3, 2, 0, 3);
    // @harness ids=C03,C01 tier=quick kind=bounded bound="capacity=3 (storage length 2, free-stack length 1; all contents, links, versions symbolic under the invariant)" units=outstation::database::details::event::list::VecList::add timeout=250 note="add appends at the tail under a fresh handle, earlier elements keep order/handle/data; a full list refuses and is unchanged; invariant restored"
    list_harness!(vk_c03_list_add_c3_l2_f1, add_contract, 3, 2, 1);
    // @harness ids=C03,C01 tier=thorough kind=bounded bound="capacity=3 (storage length 2, free-stack length 1; all contents, links, versions symbolic under the invariant)" units=outstation::database::details::event::list::VecList::remove_at timeout=250 note="for every handle value: removes exactly the addressed element iff the slot is live and the version matches, order of the others unchanged, else nothing changes; invariant restored"
    list_harness!(vk_c03_list_remove_at_c3_l2_f1, remove_at_contract, 3, 2, 1);
    // @harness ids=C03,C01 tier=thorough kind=bounded bound="capacity=3 (storage length 2, free-stack length 1; all contents, links, versions symbolic under the invariant)" units=outstation::database::details::event::list::VecList::remove_first,outstation::database::details::event::list::VecList::find_first timeout=250 note="for every predicate (symbolic truth table): removes exactly the oldest matching element and returns its data, None and unchanged iff none matches; invariant restored"
    list_harness!(vk_c03_list_remove_first_c3_l2_f1, remove_first_contract, 3, 2, 1);
    // @harness ids=C03,C01 tier=thorough kind=bounded bound="capacity=3 (storage length 2, free-stack length 1; all contents, links, versions symbolic under the invariant)" units=outstation::database::details::event::list::VecList::iter,outstation::database::details::event::list::ListIterator::next,outstation::database::details::event::list::VecList::find_first,outstation::database::details::event::list::VecList::len,outstation::database::details::event::list::VecList::is_full timeout=250 note="iteration yields exactly the live elements oldest first with their handles; find_first returns the oldest match; nothing changes"
    list_harness!(vk_c03_list_iter_c3_l2_f1, iter_contract, 3, 2, 1);
    // @harness ids=C03,C01 tier=thorough kind=bounded bound="capacity=3 (storage length 2, free-stack length 1, predicate answers = bits of 0; all contents, links, versions symbolic under the invariant)" units=outstation::database::details::event::list::VecList::remove_all timeout=250 note="the predicate is asked once per element oldest first; exactly the elements it accepts are removed, survivors keep order/handle/data; returns the number removed; invariant restored (all 2^size answer patterns enumerated)"
    list_harness!(vk_c03_list_remove_all_c3_l2_f1_m0, remove_all_contract, 3, 2, 1, 0);
    // @harness ids=C03,C01 tier=thorough kind=bounded bound="capacity=3 (storage length 2, free-stack length 1, predicate answers = bits of 1; all contents, links, versions symbolic under the invariant)" units=outstation::database::details::event::list::VecList::remove_all timeout=250 note="the predicate is asked once per element oldest first; exactly the elements it accepts are removed, survivors keep order/handle/data; returns the number removed; invariant restored (all 2^size answer patterns enumerated)"
    list_harness!(vk_c03_list_remove_all_c3_l2_f1_m1, remove_all_contract, 3, 2, 1, 1);
    // @harness ids=C03,C01 tier=quick kind=bounded bound="capacity=3 (storage length 2, free-stack length 2; all contents, links, versions symbolic under the invariant)" units=outstation::database::details::event::list::VecList::add timeout=250 note="add appends at the tail under a fresh handle, earlier elements keep order/handle/data; a full list refuses and is unchanged; invariant restored"
    list_harness!(vk_c03_list_add_c3_l2_f2, add_contract, 3, 2, 2);
    // @harness ids=C03,C01 tier=thorough kind=bounded bound="capacity=3 (storage length 2, free-stack length 2; all contents, links, versions symbolic under the invariant)" units=outstation::database::details::event::list::VecList::remove_at timeout=250 note="for every handle value: removes exactly the addressed element iff the slot is live and the version matches, order of the others unchanged, else nothing changes; invariant restored"
    list_harness!(vk_c03_list_remove_at_c3_l2_f2, remove_at_contract, 3, 2, 2);
    // @harness ids=C03,C01 tier=thorough kind=bounded bound="capacity=3 (storage length 2, free-stack length 2; all contents, links, versions symbolic under the invariant)" units=outstation::database::details::event::list::VecList::remove_first,outstation::database::details::event::list::VecList::find_first timeout=250 note="for every predicate (symbolic truth table): removes exactly the oldest matching element and returns its data, None and unchanged iff none matches; invariant restored"
    list_harness!(vk_c03_list_remove_first_c3_l2_f2, remove_first_contract, 3, 2, 2);
    // @harness ids=C03,C01 tier=thorough kind=bounded bound="capacity=3 (storage length 2, free-stack length 2; all contents, links, versions symbolic under the invariant)" units=outstation::database::details::event::list::VecList::iter,outstation::database::details::event::list::ListIterator::next,outstation::database::details::event::list::VecList::find_first,outstation::database::details::event::list::VecList::len,outstation::database::details::event::list::VecList::is_full timeout=250 note="iteration yields exactly the live elements oldest first with their handles; find_first returns the oldest match; nothing changes"
    list_harness!(vk_c03_list_iter_c3_l2_f2, iter_contract, 3, 2, 2);
    // @harness ids=C03,C01 tier=thorough kind=bounded bound="capacity=3 (storage length 2, free-stack length 2, predicate answers = bits of 0; all contents, links, versions symbolic under the invariant)" units=outstation::database::details::event::list::VecList::remove_all timeout=250 note="the predicate is asked once per element oldest first; exactly the elements it accepts are removed, survivors keep order/handle/data; returns the number removed; invariant restored (all 2^size answer patterns enumerated)"
    list_harness!(vk_c03_list_remove_all_c3_l2_f2_m0, remove_all_contract, 3, 2, 2, 0);
    // @harness ids=C03,C01 tier=quick kind=bounded bound="capacity=3 (storage length 3, free-stack length 0; all contents, links, versions symbolic under the invariant)" units=outstation::database::details::event::list::VecList::add timeout=250 note="add appends at the tail under a fresh handle, earlier elements keep order/handle/data; a full list refuses and is unchanged; invariant restored"
    list_harness!(vk_c03_list_add_c3_l3_f0, add_contract, 3, 3, 0);
    // @harness ids=C03,C01 tier=quick kind=bounded bound="capacity=3 (storage length 3, free-stack length 0; all contents, links, versions symbolic under the invariant)" units=outstation::database::details::event::list::VecList::remove_at timeout=250 note="for every handle value: removes exactly the addressed element iff the slot is live and the version matches, order of the others unchanged, else nothing changes; invariant restored"
    list_harness!(vk_c03_list_remove_at_c3_l3_f0, remove_at_contract, 3, 3, 0);
    // @harness ids=C03,C01 tier=quick kind=bounded bound="capacity=3 (storage length 3, free-stack length 0; all contents, links, versions symbolic under the invariant)" units=outstation::database::details::event::list::VecList::remove_first,outstation::database::details::event::list::VecList::find_first timeout=250 note="for every predicate (symbolic truth table): removes exactly the oldest matching element and returns its data, None and unchanged iff none matches; invariant restored"
    list_harness!(vk_c03_list_remove_first_c3_l3_f0, remove_first_contract, 3, 3, 0);
    // @harness ids=C03,C01 tier=quick kind=bounded bound="capacity=3 (storage length 3, free-stack length 0; all contents, links, versions symbolic under the invariant)" units=outstation::database::details::event::list::VecList::iter,outstation::database::details::event::list::ListIterator::next,outstation::database::details::event::list::VecList::find_first,outstation::database::details::event::list::VecList::len,outstation::database::details::event::list::VecList::is_full timeout=250 note="iteration yields exactly the live elements oldest first with their handles; find_first returns the oldest match; nothing changes"
    list_harness!(vk_c03_list_iter_c3_l3_f0, iter_contract, 3, 3, 0);
    // @harness ids=C03,C01 tier=quick kind=bounded bound="capacity=3 (storage length 3, free-stack length 0, predicate answers = bits of 0; all contents, links, versions symbolic under the invariant)" units=outstation::database::details::event::list::VecList::remove_all timeout=250 note="the predicate is asked once per element oldest first; exactly the elements it accepts are removed, survivors keep order/handle/data; returns the number removed; invariant restored (all 2^size answer patterns enumerated)"
    list_harness!(vk_c03_list_remove_all_c3_l3_f0_m0, remove_all_contract, 3, 3, 0, 0);
    // @harness ids=C03,C01 tier=quick kind=bounded bound="capacity=3 (storage length 3, free-stack length 0, predicate answers = bits of 1; all contents, links, versions symbolic under the invariant)" units=outstation::database::details::event::list::VecList::remove_all timeout=250 note="the predicate is asked once per element oldest first; exactly the elements it accepts are removed, survivors keep order/handle/data; returns the number removed; invariant restored (all 2^size answer patterns enumerated)"
    list_harness!(vk_c03_list_remove_all_c3_l3_f0_m1, remove_all_contract, 3, 3, 0, 1);
    // @harness ids=C03,C01 tier=quick kind=bounded bound="capacity=3 (storage length 3, free-stack length 0, predicate answers = bits of 2; all contents, links, versions symbolic under the invariant)" units=outstation::database::details::event::list::VecList::remove_all timeout=250 note="the predicate is asked once per element oldest first; exactly the elements it accepts are removed, survivors keep order/handle/data; returns the number removed; invariant restored (all 2^size answer patterns enumerated)"
    list_harness!(vk_c03_list_remove_all_c3_l3_f0_m2, remove_all_contract, 3, 3, 0, 2);
    // @harness ids=C03,C01 tier=quick kind=bounded bound="capacity=3 (storage length 3, free-stack length 0, predicate answers = bits of 3; all contents, links, versions symbolic under the invariant)" units=outstation::database::details::event::list::VecList::remove_all timeout=250 note="the predicate is asked once per element oldest first; exactly the elements it accepts are removed, survivors keep order/handle/data; returns the number removed; invariant restored (all 2^size answer patterns enumerated)"
    list_harness!(vk_c03_list_remove_all_c3_l3_f0_m3, remove_all_contract, 3, 3, 0, 3);
    // @harness ids=C03,C01 tier=quick kind=bounded bound="capacity=3 (storage length 3, free-stack length 0, predicate answers = bits of 4; all contents, links, versions symbolic under the invariant)" units=outstation::database::details::event::list::VecList::remove_all timeout=250 note="the predicate is asked once per element oldest first; exactly the elements it accepts are removed, survivors keep order/handle/data; returns the number removed; invariant restored (all 2^size answer patterns enumerated)"
    list_harness!(vk_c03_list_remove_all_c3_l3_f0_m4, remove_all_contract, 3, 3, 0, 4);
    // @harness ids=C03,C01 tier=quick kind=bounded bound="capacity=3 (storage length 3, free-stack length 0, predicate answers = bits of 5; all contents, links, versions symbolic under the invariant)" units=outstation::database::details::event::list::VecList::remove_all timeout=250 note="the predicate is asked once per element oldest first; exactly the elements it accepts are removed, survivors keep order/handle/data; returns the number removed; invariant restored (all 2^size answer patterns enumerated)"
    list_harness!(vk_c03_list_remove_all_c3_l3_f0_m5, remove_all_contract, 3, 3, 0, 5);
    // @harness ids=C03,C01 tier=quick kind=bounded bound="capacity=3 (storage length 3, free-stack length 0, predicate answers = bits of 6; all contents, links, versions symbolic under the invariant)" units=outstation::database::details::event::list::VecList::remove_all timeout=250 note="the predicate is asked once per element oldest first; exactly the elements it accepts are removed, survivors keep order/handle/data; returns the number removed; invariant restored (all 2^size answer patterns enumerated)"
    list_harness!(vk_c03_list_remove_all_c3_l3_f0_m6, remove_all_contract, 3, 3, 0, 6);
    // @harness ids=C03,C01 tier=quick kind=bounded bound="capacity=3 (storage length 3, free-stack length 0, predicate answers = bits of 7; all contents, links, versions symbolic under the invariant)" units=outstation::database::details::event::list::VecList::remove_all timeout=250 note="the predicate is asked once per element oldest first; exactly the elements it accepts are removed, survivors keep order/handle/data; returns the number removed; invariant restored (all 2^size answer patterns enumerated)"
    list_harness!(vk_c03_list_remove_all_c3_l3_f0_m7, remove_all_contract, 3, 3, 0, 7);
    // @harness ids=C03,C01 tier=quick kind=bounded bound="capacity=3 (storage length 3, free-stack length 1; all contents, links, versions symbolic under the invariant)" units=outstation::database::details::event::list::VecList::add timeout=250 note="add appends at the tail under a fresh handle, earlier elements keep order/handle/data; a full list refuses and is unchanged; invariant restored"
    list_harness!(vk_c03_list_add_c3_l3_f1, add_contract, 3, 3, 1);
    // @harness ids=C03,C01 tier=quick kind=bounded bound="capacity=3 (storage length 3, free-stack length 1; all contents, links, versions symbolic under the invariant)" units=outstation::database::details::event::list::VecList::remove_at timeout=250 note="for every handle value: removes exactly the addressed element iff the slot is live and the version matches, order of the others unchanged, else nothing changes; invariant restored"
    list_harness!(vk_c03_list_remove_at_c3_l3_f1, remove_at_contract, 3, 3, 1);
    // @harness ids=C03,C01 tier=quick kind=bounded bound="capacity=3 (storage length 3, free-stack length 1; all contents, links, versions symbolic under the invariant)" units=outstation::database::details::event::list::VecList::remove_first,outstation::database::details::event::list::VecList::find_first timeout=250 note="for every predicate (symbolic truth table): removes exactly the oldest matching element and returns its data, None and unchanged iff none matches; invariant restored"
    list_harness!(vk_c03_list_remove_first_c3_l3_f1, remove_first_contract, 3, 3, 1);
    // @harness ids=C03,C01 tier=quick kind=bounded bound="capacity=3 (storage length 3, free-stack length 1; all contents, links, versions symbolic under the invariant)" units=outstation::database::details::event::list::VecList::iter,outstation::database::details::event::list::ListIterator::next,outstation::database::details::event::list::VecList::find_first,outstation::database::details::event::list::VecList::len,outstation::database::details::event::list::VecList::is_full timeout=250 note="iteration yields exactly the live elements oldest first with their handles; find_first returns the oldest match; nothing changes"
    list_harness!(vk_c03_list_iter_c3_l3_f1, iter_contract, 3, 3, 1);
    // @harness ids=C03,C01 tier=quick kind=bounded bound="capacity=3 (storage length 3, free-stack length 1, predicate answers = bits of 0; all contents, links, versions symbolic under the invariant)" units=outstation::database::details::event::list::VecList::remove_all timeout=250 note="the predicate is asked once per element oldest first; exactly the elements it accepts are removed, survivors keep order/handle/data; returns the number removed; invariant restored (all 2^size answer patterns enumerated)"
    list_harness!(vk_c03_list_remove_all_c3_l3_f1_m0, remove_all_contract, 3, 3, 1, 0);
    // @harness ids=C03,C01 tier=quick kind=bounded bound="capacity=3 (storage length 3, free-stack length 1, predicate answers = bits of 1; all contents, links, versions symbolic under the invariant)" units=outstation::database::details::event::list::VecList::remove_all timeout=250 note="the predicate is asked once per element oldest first; exactly the elements it accepts are removed, survivors keep order/handle/data; returns the number removed; invariant restored (all 2^size answer patterns enumerated)"
    list_harness!(vk_c03_list_remove_all_c3_l3_f1_m1, remove_all_contract, 3, 3, 1, 1);
    // @harness ids=C03,C01 tier=quick kind=bounded bound="capacity=3 (storage length 3, free-stack length 1, predicate answers = bits of 2; all contents, links, versions symbolic under the invariant)" units=outstation::database::details::event::list::VecList::remove_all timeout=250 note="the predicate is asked once per element oldest first; exactly the elements it accepts are removed, survivors keep order/handle/data; returns the number removed; invariant restored (all 2^size answer patterns enumerated)"
    list_harness!(vk_c03_list_remove_all_c3_l3_f1_m2, remove_all_contract, 3, 3, 1, 2);
    // @harness ids=C03,C01 tier=quick kind=bounded bound="capacity=3 (storage length 3, free-stack length 1, predicate answers = bits of 3; all contents, links, versions symbolic under the invariant)" units=outstation::database::details::event::list::VecList::remove_all timeout=250 note="the predicate is asked once per element oldest first; exactly the elements it accepts are removed, survivors keep order/handle/data; returns the number removed; invariant restored (all 2^size answer patterns enumerated)"
    list_harness!(vk_c03_list_remove_all_c3_l3_f1_m3, remove_all_contract, 3, 3, 1, 3);
    // @harness ids=C03,C01 tier=quick kind=bounded bound="capacity=3 (storage length 3, free-stack length 2; all contents, links, versions symbolic under the invariant)" units=outstation::database::details::event::list::VecList::add timeout=250 note="add appends at the tail under a fresh handle, earlier elements keep order/handle/data; a full list refuses and is unchanged; invariant restored"
    list_harness!(vk_c03_list_add_c3_l3_f2, add_contract, 3, 3, 2);
    // @harness ids=C03,C01 tier=quick kind=bounded bound="capacity=3 (storage length 3, free-stack length 2; all contents, links, versions symbolic under the invariant)" units=outstation::database::details::event::list::VecList::remove_at timeout=250 note="for every handle value: removes exactly the addressed element iff the slot is live and the version matches, order of the others unchanged, else nothing changes; invariant restored"
    list_harness!(vk_c03_list_remove_at_c3_l3_f2, remove_at_contract, 3, 3, 2);
    // @harness ids=C03,C01 tier=quick kind=bounded bound="capacity=3 (storage length 3, free-stack length 2; all contents, links, versions symbolic under the invariant)" units=outstation::database::details::event::list::VecList::remove_first,outstation::database::details::event::list::VecList::find_first timeout=250 note="for every predicate (symbolic truth table): removes exactly the oldest matching element and returns its data, None and unchanged iff none matches; invariant restored"
    list_harness!(vk_c03_list_remove_first_c3_l3_f2, remove_first_contract, 3, 3, 2);
    // @harness ids=C03,C01 tier=quick kind=bounded bound="capacity=3 (storage length 3, free-stack length 2; all contents, links, versions symbolic under the invariant)" units=outstation::database::details::event::list::VecList::iter,outstation::database::details::event::list::ListIterator::next,outstation::database::details::event::list::VecList::find_first,outstation::database::details::event::list::VecList::len,outstation::database::details::event::list::VecList::is_full timeout=250 note="iteration yields exactly the live elements oldest first with their handles; find_first returns the oldest match; nothing changes"
    list_harness!(vk_c03_list_iter_c3_l3_f2, iter_contract, 3, 3, 2);
    // @harness ids=C03,C01 tier=quick kind=bounded bound="capacity=3 (storage length 3, free-stack length 2, predicate answers = bits of 0; all contents, links, versions symbolic under the invariant)" units=outstation::database::details::event::list::VecList::remove_all timeout=250 note="the predicate is asked once per element oldest first; exactly the elements it accepts are removed, survivors keep order/handle/data; returns the number removed; invariant restored (all 2^size answer patterns enumerated)"
    list_harness!(vk_c03_list_remove_all_c3_l3_f2_m0, remove_all_contract, 3, 3, 2, 0);
    // @harness ids=C03,C01 tier=quick kind=bounded bound="capacity=3 (storage length 3, free-stack length 2, predicate answers = bits of 1; all contents, links, versions symbolic under the invariant)" units=outstation::database::details::event::list::VecList::remove_all timeout=250 note="the predicate is asked once per element oldest first; exactly the elements it accepts are removed, survivors keep order/handle/data; returns the number removed; invariant restored (all 2^size answer patterns enumerated)"
    list_harness!(vk_c03_list_remove_all_c3_l3_f2_m1, remove_all_contract, 3, 3, 2, 1);
    // @harness ids=C03,C01 tier=quick kind=bounded bound="capacity=3 (storage length 3, free-stack length 3; all contents, links, versions symbolic under the invariant)" units=outstation::database::details::event::list::VecList::add timeout=250 note="add appends at the tail under a fresh handle, earlier elements keep order/handle/data; a full list refuses and is unchanged; invariant restored"
    list_harness!(vk_c03_list_add_c3_l3_f3, add_contract, 3, 3, 3);
    // @harness ids=C03,C01 tier=quick kind=bounded bound="capacity=3 (storage length 3, free-stack length 3; all contents, links, versions symbolic under the invariant)" units=outstation::database::details::event::list::VecList::remove_at timeout=250 note="for every handle value: removes exactly the addressed element iff the slot is live and the version matches, order of the others unchanged, else nothing changes; invariant restored"
    list_harness!(vk_c03_list_remove_at_c3_l3_f3, remove_at_contract, 3, 3, 3);
    // @harness ids=C03,C01 tier=quick kind=bounded bound="capacity=3 (storage length 3, free-stack length 3; all contents, links, versions symbolic under the invariant)" units=outstation::database::details::event::list::VecList::remove_first,outstation::database::details::event::list::VecList::find_first timeout=250 note="for every predicate (symbolic truth table): removes exactly the oldest matching element and returns its data, None and unchanged iff none matches; invariant restored"
    list_harness!(vk_c03_list_remove_first_c3_l3_f3, remove_first_contract, 3, 3, 3);
    // @harness ids=C03,C01 tier=quick kind=bounded bound="capacity=3 (storage length 3, free-stack length 3; all contents, links, versions symbolic under the invariant)" units=outstation::database::details::event::list::VecList::iter,outstation::database::details::event::list::ListIterator::next,outstation::database::details::event::list::VecList::find_first,outstation::database::details::event::list::VecList::len,outstation::database::details::event::list::VecList::is_full timeout=250 note="iteration yields exactly the live elements oldest first with their handles; find_first returns the oldest match; nothing changes"
    list_harness!(vk_c03_list_iter_c3_l3_f3, iter_contract, 3, 3, 3);
    // @harness ids=C03,C01 tier=quick kind=bounded bound="capacity=3 (storage length 3, free-stack length 3, predicate answers = bits of 0; all contents, links, versions symbolic under the invariant)" units=outstation::database::details::event::list::VecList::remove_all timeout=250 note="the predicate is asked once per element oldest first; exactly the elements it accepts are removed, survivors keep order/handle/data; returns the number removed; invariant restored (all 2^size answer patterns enumerated)"
    list_harness!(vk_c03_list_remove_all_c3_l3_f3_m0, remove_all_contract, 3, 3, 3, 0);
    // @harness ids=C03,C01 tier=thorough kind=bounded bound="capacity=2 (storage length 0, free-stack length 0; all contents, links, versions symbolic under the invariant)" units=outstation::database::details::event::list::VecList::add timeout=250 note="add appends at the tail under a fresh handle, earlier elements keep order/handle/data; a full list refuses and is unchanged; invariant restored"
    list_harness!(vk_c03_list_add_c2_l0_f0, add_contract, 2, 0, 0);
    // @harness ids=C03,C01 tier=thorough kind=bounded bound="capacity=2 (storage length 0, free-stack length 0; all contents, links, versions symbolic under the invariant)" units=outstation::database::details::event::list::VecList::remove_at timeout=250 note="for every handle value: removes exactly the addressed element iff the slot is live and the version matches, order of the others unchanged, else nothing changes; invariant restored"
    list_harness!(vk_c03_list_remove_at_c2_l0_f0, remove_at_contract, 2, 0, 0);
    // @harness ids=C03,C01 tier=thorough kind=bounded bound="capacity=2 (storage length 0, free-stack length 0; all contents, links, versions symbolic under the invariant)" units=outstation::database::details::event::list::VecList::remove_first,outstation::database::details::event::list::VecList::find_first timeout=250 note="for every predicate (symbolic truth table): removes exactly the oldest matching element and returns its data, None and unchanged iff none matches; invariant restored"
    list_harness!(vk_c03_list_remove_first_c2_l0_f0, remove_first_contract, 2, 0, 0);
    // @harness ids=C03,C01 tier=thorough kind=bounded bound="capacity=2 (storage length 0, free-stack length 0; all contents, links, versions symbolic under the invariant)" units=outstation::database::details::event::list::VecList::iter,outstation::database::details::event::list::ListIterator::next,outstation::database::details::event::list::VecList::find_first,outstation::database::details::event::list::VecList::len,outstation::database::details::event::list::VecList::is_full timeout=250 note="iteration yields exactly the live elements oldest first with their handles; find_first returns the oldest match; nothing changes"
    list_harness!(vk_c03_list_iter_c2_l0_f0, iter_contract, 2, 0, 0);
    // @harness ids=C03,C01 tier=thorough kind=bounded bound="capacity=2 (storage length 0, free-stack length 0, predicate answers = bits of 0; all contents, links, versions symbolic under the invariant)" units=outstation::database::details::event::list::VecList::remove_all timeout=250 note="the predicate is asked once per element oldest first; exactly the elements it accepts are removed, survivors keep order/handle/data; returns the number removed; invariant restored (all 2^size answer patterns enumerated)"
    list_harness!(vk_c03_list_remove_all_c2_l0_f0_m0, remove_all_contract, 2, 0, 0, 0);
    // @harness ids=C03,C01 tier=thorough kind=bounded bound="capacity=2 (storage length 1, free-stack length 0; all contents, links, versions symbolic under the invariant)" units=outstation::database::details::event::list::VecList::add timeout=250 note="add appends at the tail under a fresh handle, earlier elements keep order/handle/data; a full list refuses and is unchanged; invariant restored"
    list_harness!(vk_c03_list_add_c2_l1_f0, add_contract, 2, 1, 0);
    // @harness ids=C03,C01 tier=thorough kind=bounded bound="capacity=2 (storage length 1, free-stack length 0; all contents, links, versions symbolic under the invariant)" units=outstation::database::details::event::list::VecList::remove_at timeout=250 note="for every handle value: removes exactly the addressed element iff the slot is live and the version matches, order of the others unchanged, else nothing changes; invariant restored"
    list_harness!(vk_c03_list_remove_at_c2_l1_f0, remove_at_contract, 2, 1, 0);
    // @harness ids=C03,C01 tier=thorough kind=bounded bound="capacity=2 (storage length 1, free-stack length 0; all contents, links, versions symbolic under the invariant)" units=outstation::database::details::event::list::VecList::remove_first,outstation::database::details::event::list::VecList::find_first timeout=250 note="for every predicate (symbolic truth table): removes exactly the oldest matching element and returns its data, None and unchanged iff none matches; invariant restored"
    list_harness!(vk_c03_list_remove_first_c2_l1_f0, remove_first_contract, 2, 1, 0);
    // @harness ids=C03,C01 tier=thorough kind=bounded bound="capacity=2 (storage length 1, free-stack length 0; all contents, links, versions symbolic under the invariant)" units=outstation::database::details::event::list::VecList::iter,outstation::database::details::event::list::ListIterator::next,outstation::database::details::event::list::VecList::find_first,outstation::database::details::event::list::VecList::len,outstation::database::details::event::list::VecList::is_full timeout=250 note="iteration yields exactly the live elements oldest first with their handles; find_first returns the oldest match; nothing changes"
    list_harness!(vk_c03_list_iter_c2_l1_f0, iter_contract, 2, 1, 0);
    // @harness ids=C03,C01 tier=thorough kind=bounded bound="capacity=2 (storage length 1, free-stack length 0, predicate answers = bits of 0; all contents, links, versions symbolic under the invariant)" units=outstation::database::details::event::list::VecList::remove_all timeout=250 note="the predicate is asked once per element oldest first; exactly the elements it accepts are removed, survivors keep order/handle/data; returns the number removed; invariant restored (all 2^size answer patterns enumerated)"
    list_harness!(vk_c03_list_remove_all_c2_l1_f0_m0, remove_all_contract, 2, 1, 0, 0);
    // @harness ids=C03,C01 tier=thorough kind=bounded bound="capacity=2 (storage length 1, free-stack length 0, predicate answers = bits of 1; all contents, links, versions symbolic under the invariant)" units=outstation::database::details::event::list::VecList::remove_all timeout=250 note="the predicate is asked once per element oldest first; exactly the elements it accepts are removed, survivors keep order/handle/data; returns the number removed; invariant restored (all 2^size answer patterns enumerated)"
    list_harness!(vk_c03_list_remove_all_c2_l1_f0_m1, remove_all_contract, 2, 1, 0, 1);
    // @harness ids=C03,C01 tier=thorough kind=bounded bound="capacity=2 (storage length 1, free-stack length 1; all contents, links, versions symbolic under the invariant)" units=outstation::database::details::event::list::VecList::add timeout=250 note="add appends at the tail under a fresh handle, earlier elements keep order/handle/data; a full list refuses and is unchanged; invariant restored"
    list_harness!(vk_c03_list_add_c2_l1_f1, add_contract, 2, 1, 1);
    // @harness ids=C03,C01 tier=thorough kind=bounded bound="capacity=2 (storage length 1, free-stack length 1; all contents, links, versions symbolic under the invariant)" units=outstation::database::details::event::list::VecList::remove_at timeout=250 note="for every handle value: removes exactly the addressed element iff the slot is live and the version matches, order of the others unchanged, else nothing changes; invariant restored"
    list_harness!(vk_c03_list_remove_at_c2_l1_f1, remove_at_contract, 2, 1, 1);
    // @harness ids=C03,C01 tier=thorough kind=bounded bound="capacity=2 (storage length 1, free-stack length 1; all contents, links, versions symbolic under the invariant)" units=outstation::database::details::event::list::VecList::remove_first,outstation::database::details::event::list::VecList::find_first timeout=250 note="for every predicate (symbolic truth table): removes exactly the oldest matching element and returns its data, None and unchanged iff none matches; invariant restored"
    list_harness!(vk_c03_list_remove_first_c2_l1_f1, remove_first_contract, 2, 1, 1);
    // @harness ids=C03,C01 tier=thorough kind=bounded bound="capacity=2 (storage length 1, free-stack length 1; all contents, links, versions symbolic under the invariant)" units=outstation::database::details::event::list::VecList::iter,outstation::database::details::event::list::ListIterator::next,outstation::database::details::event::list::VecList::find_first,outstation::database::details::event::list::VecList::len,outstation::database::details::event::list::VecList::is_full timeout=250 note="iteration yields exactly the live elements oldest first with their handles; find_first returns the oldest match; nothing changes"
    list_harness!(vk_c03_list_iter_c2_l1_f1, iter_contract, 2, 1, 1);
    // @harness ids=C03,C01 tier=thorough kind=bounded bound="capacity=2 (storage length 1, free-stack length 1, predicate answers = bits of 0; all contents, links, versions symbolic under the invariant)" units=outstation::database::details::event::list::VecList::remove_all timeout=250 note="the predicate is asked once per element oldest first; exactly the elements it accepts are removed, survivors keep order/handle/data; returns the number removed; invariant restored (all 2^size answer patterns enumerated)"
    list_harness!(vk_c03_list_remove_all_c2_l1_f1_m0, remove_all_contract, 2, 1, 1, 0);
    // @harness ids=C03,C01 tier=thorough kind=bounded bound="capacity=2 (storage length 2, free-stack length 0; all contents, links, versions symbolic under the invariant)" units=outstation::database::details::event::list::VecList::add timeout=250 note="add appends at the tail under a fresh handle, earlier elements keep order/handle/data; a full list refuses and is unchanged; invariant restored"
    list_harness!(vk_c03_list_add_c2_l2_f0, add_contract, 2, 2, 0);
    // @harness ids=C03,C01 tier=thorough kind=bounded bound="capacity=2 (storage length 2, free-stack length 0; all contents, links, versions symbolic under the invariant)" units=outstation::database::details::event::list::VecList::remove_at timeout=250 note="for every handle value: removes exactly the addressed element iff the slot is live and the version matches, order of the others unchanged, else nothing changes; invariant restored"
    list_harness!(vk_c03_list_remove_at_c2_l2_f0, remove_at_contract, 2, 2, 0);
    // @harness ids=C03,C01 tier=thorough kind=bounded bound="capacity=2 (storage length 2, free-stack length 0; all contents, links, versions symbolic under the invariant)" units=outstation::database::details::event::list::VecList::remove_first,outstation::database::details::event::list::VecList::find_first timeout=250 note="for every predicate (symbolic truth table): removes exactly the oldest matching element and returns its data, None and unchanged iff none matches; invariant restored"
    list_harness!(vk_c03_list_remove_first_c2_l2_f0, remove_first_contract, 2, 2, 0);
    // @harness ids=C03,C01 tier=thorough kind=bounded bound="capacity=2 (storage length 2, free-stack length 0; all contents, links, versions symbolic under the invariant)" units=outstation::database::details::event::list::VecList::iter,outstation::database::details::event::list::ListIterator::next,outstation::database::details::event::list::VecList::find_first,outstation::database::details::event::list::VecList::len,outstation::database::details::event::list::VecList::is_full timeout=250 note="iteration yields exactly the live elements oldest first with their handles; find_first returns the oldest match; nothing changes"
    list_harness!(vk_c03_list_iter_c2_l2_f0, iter_contract, 2, 2, 0);
    // @harness ids=C03,C01 tier=thorough kind=bounded bound="capacity=2 (storage length 2, free-stack length 0, predicate answers = bits of 0; all contents, links, versions symbolic under the invariant)" units=outstation::database::details::event::list::VecList::remove_all timeout=250 note="the predicate is asked once per element oldest first; exactly the elements it accepts are removed, survivors keep order/handle/data; returns the number removed; invariant restored (all 2^size answer patterns enumerated)"
    list_harness!(vk_c03_list_remove_all_c2_l2_f0_m0, remove_all_contract, 2, 2, 0, 0);
    // @harness ids=C03,C01 tier=thorough kind=bounded bound="capacity=2 (storage length 2, free-stack length 0, predicate answers = bits of 1; all contents, links, versions symbolic under the invariant)" units=outstation::database::details::event::list::VecList::remove_all timeout=250 note="the predicate is asked once per element oldest first; exactly the elements it accepts are removed, survivors keep order/handle/data; returns the number removed; invariant restored (all 2^size answer patterns enumerated)"
    list_harness!(vk_c03_list_remove_all_c2_l2_f0_m1, remove_all_contract, 2, 2, 0, 1);
    // @harness ids=C03,C01 tier=thorough kind=bounded bound="capacity=2 (storage length 2, free-stack length 0, predicate answers = bits of 2; all contents, links, versions symbolic under the invariant)" units=outstation::database::details::event::list::VecList::remove_all timeout=250 note="the predicate is asked once per element oldest first; exactly the elements it accepts are removed, survivors keep order/handle/data; returns the number removed; invariant restored (all 2^size answer patterns enumerated)"
    list_harness!(vk_c03_list_remove_all_c2_l2_f0_m2, remove_all_contract, 2, 2, 0, 2);
    // @harness ids=C03,C01 tier=thorough kind=bounded bound="capacity=2 (storage length 2, free-stack length 0, predicate answers = bits of 3; all contents, links, versions symbolic under the invariant)" units=outstation::database::details::event::list::VecList::remove_all timeout=250 note="the predicate is asked once per element oldest first; exactly the elements it accepts are removed, survivors keep order/handle/data; returns the number removed; invariant restored (all 2^size answer patterns enumerated)"
    list_harness!(vk_c03_list_remove_all_c2_l2_f0_m3, remove_all_contract, 2, 2, 0, 3);
    // @harness ids=C03,C01 tier=thorough kind=bounded bound="capacity=2 (storage length 2, free-stack length 1; all contents, links, versions symbolic under the invariant)" units=outstation::database::details::event::list::VecList::add timeout=250 note="add appends at the tail under a fresh handle, earlier elements keep order/handle/data; a full list refuses and is unchanged; invariant restored"
    list_harness!(vk_c03_list_add_c2_l2_f1, add_contract, 2, 2, 1);
    // @harness ids=C03,C01 tier=thorough kind=bounded bound="capacity=2 (storage length 2, free-stack length 1; all contents, links, versions symbolic under the invariant)" units=outstation::database::details::event::list::VecList::remove_at timeout=250 note="for every handle value: removes exactly the addressed element iff the slot is live and the version matches, order of the others unchanged, else nothing changes; invariant restored"
    list_harness!(vk_c03_list_remove_at_c2_l2_f1, remove_at_contract, 2, 2, 1);
    // @harness ids=C03,C01 tier=thorough kind=bounded bound="capacity=2 (storage length 2, free-stack length 1; all contents, links, versions symbolic under the invariant)" units=outstation::database::details::event::list::VecList::remove_first,outstation::database::details::event::list::VecList::find_first timeout=250 note="for every predicate (symbolic truth table): removes exactly the oldest matching element and returns its data, None and unchanged iff none matches; invariant restored"
    list_harness!(vk_c03_list_remove_first_c2_l2_f1, remove_first_contract, 2, 2, 1);
    // @harness ids=C03,C01 tier=thorough kind=bounded bound="capacity=2 (storage length 2, free-stack length 1; all contents, links, versions symbolic under the invariant)" units=outstation::database::details::event::list::VecList::iter,outstation::database::details::event::list::ListIterator::next,outstation::database::details::event::list::VecList::find_first,outstation::database::details::event::list::VecList::len,outstation::database::details::event::list::VecList::is_full timeout=250 note="iteration yields exactly the live elements oldest first with their handles; find_first returns the oldest match; nothing changes"
    list_harness!(vk_c03_list_iter_c2_l2_f1, iter_contract, 2, 2, 1);
    // @harness ids=C03,C01 tier=thorough kind=bounded bound="capacity=2 (storage length 2, free-stack length 1, predicate answers = bits of 0; all contents, links, versions symbolic under the invariant)" units=outstation::database::details::event::list::VecList::remove_all timeout=250 note="the predicate is asked once per element oldest first; exactly the elements it accepts are removed, survivors keep order/handle/data; returns the number removed; invariant restored (all 2^size answer patterns enumerated)"
    list_harness!(vk_c03_list_remove_all_c2_l2_f1_m0, remove_all_contract, 2, 2, 1, 0);
    // @harness ids=C03,C01 tier=thorough kind=bounded bound="capacity=2 (storage length 2, free-stack length 1, predicate answers = bits of 1; all contents, links, versions symbolic under the invariant)" units=outstation::database::details::event::list::VecList::remove_all timeout=250 note="the predicate is asked once per element oldest first; exactly the elements it accepts are removed, survivors keep order/handle/data; returns the number removed; invariant restored (all 2^size answer patterns enumerated)"
    list_harness!(vk_c03_list_remove_all_c2_l2_f1_m1, remove_all_contract, 2, 2, 1, 1);
    // @harness ids=C03,C01 tier=thorough kind=bounded bound="capacity=2 (storage length 2, free-stack length 2; all contents, links, versions symbolic under the invariant)" units=outstation::database::details::event::list::VecList::add timeout=250 note="add appends at the tail under a fresh handle, earlier elements keep order/handle/data; a full list refuses and is unchanged; invariant restored"
    list_harness!(vk_c03_list_add_c2_l2_f2, add_contract, 2, 2, 2);
    // @harness ids=C03,C01 tier=thorough kind=bounded bound="capacity=2 (storage length 2, free-stack length 2; all contents, links, versions symbolic under the invariant)" units=outstation::database::details::event::list::VecList::remove_at timeout=250 note="for every handle value: removes exactly the addressed element iff the slot is live and the version matches, order of the others unchanged, else nothing changes; invariant restored"
    list_harness!(vk_c03_list_remove_at_c2_l2_f2, remove_at_contract, 2, 2, 2);
    // @harness ids=C03,C01 tier=thorough kind=bounded bound="capacity=2 (storage length 2, free-stack length 2; all contents, links, versions symbolic under the invariant)" units=outstation::database::details::event::list::VecList::remove_first,outstation::database::details::event::list::VecList::find_first timeout=250 note="for every predicate (symbolic truth table): removes exactly the oldest matching element and returns its data, None and unchanged iff none matches; invariant restored"
    list_harness!(vk_c03_list_remove_first_c2_l2_f2, remove_first_contract, 2, 2, 2);
    // @harness ids=C03,C01 tier=thorough kind=bounded bound="capacity=2 (storage length 2, free-stack length 2; all contents, links, versions symbolic under the invariant)" units=outstation::database::details::event::list::VecList::iter,outstation::database::details::event::list::ListIterator::next,outstation::database::details::event::list::VecList::find_first,outstation::database::details::event::list::VecList::len,outstation::database::details::event::list::VecList::is_full timeout=250 note="iteration yields exactly the live elements oldest first with their handles; find_first returns the oldest match; nothing changes"
    list_harness!(vk_c03_list_iter_c2_l2_f2, iter_contract, 2, 2, 2);
    // @harness ids=C03,C01 tier=thorough kind=bounded bound="capacity=2 (storage length 2, free-stack length 2, predicate answers = bits of 0; all contents, links, versions symbolic under the invariant)" units=outstation::database::details::event::list::VecList::remove_all timeout=250 note="the predicate is asked once per element oldest first; exactly the elements it accepts are removed, survivors keep order/handle/data; returns the number removed; invariant restored (all 2^size answer patterns enumerated)"
    list_harness!(vk_c03_list_remove_all_c2_l2_f2_m0, remove_all_contract, 2, 2, 2, 0);
    // @harness ids=C03,C01 tier=thorough kind=bounded bound="capacity=4 (storage length 0, free-stack length 0; all contents, links, versions symbolic under the invariant)" units=outstation::database::details::event::list::VecList::add timeout=250 note="add appends at the tail under a fresh handle, earlier elements keep order/handle/data; a full list refuses and is unchanged; invariant restored"
    list_harness!(vk_c03_list_add_c4_l0_f0, add_contract, 4, 0, 0);
    // @harness ids=C03,C01 tier=thorough kind=bounded bound="capacity=4 (storage length 0, free-stack length 0; all contents, links, versions symbolic under the invariant)" units=outstation::database::details::event::list::VecList::remove_at timeout=250 note="for every handle value: removes exactly the addressed element iff the slot is live and the version matches, order of the others unchanged, else nothing changes; invariant restored"
    list_harness!(vk_c03_list_remove_at_c4_l0_f0, remove_at_contract, 4, 0, 0);
    // @harness ids=C03,C01 tier=thorough kind=bounded bound="capacity=4 (storage length 0, free-stack length 0; all contents, links, versions symbolic under the invariant)" units=outstation::database::details::event::list::VecList::remove_first,outstation::database::details::event::list::VecList::find_first timeout=250 note="for every predicate (symbolic truth table): removes exactly the oldest matching element and returns its data, None and unchanged iff none matches; invariant restored"
    list_harness!(vk_c03_list_remove_first_c4_l0_f0, remove_first_contract, 4, 0, 0);
    // @harness ids=C03,C01 tier=thorough kind=bounded bound="capacity=4 (storage length 0, free-stack length 0; all contents, links, versions symbolic under the invariant)" units=outstation::database::details::event::list::VecList::iter,outstation::database::details::event::list::ListIterator::next,outstation::database::details::event::list::VecList::find_first,outstation::database::details::event::list::VecList::len,outstation::database::details::event::list::VecList::is_full timeout=250 note="iteration yields exactly the live elements oldest first with their handles; find_first returns the oldest match; nothing changes"
    list_harness!(vk_c03_list_iter_c4_l0_f0, iter_contract, 4, 0, 0);
    // @harness ids=C03,C01 tier=thorough kind=bounded bound="capacity=4 (storage length 1, free-stack length 0; all contents, links, versions symbolic under the invariant)" units=outstation::database::details::event::list::VecList::add timeout=250 note="add appends at the tail under a fresh handle, earlier elements keep order/handle/data; a full list refuses and is unchanged; invariant restored"
    list_harness!(vk_c03_list_add_c4_l1_f0, add_contract, 4, 1, 0);
    // @harness ids=C03,C01 tier=thorough kind=bounded bound="capacity=4 (storage length 1, free-stack length 0; all contents, links, versions symbolic under the invariant)" units=outstation::database::details::event::list::VecList::remove_at timeout=250 note="for every handle value: removes exactly the addressed element iff the slot is live and the version matches, order of the others unchanged, else nothing changes; invariant restored"
    list_harness!(vk_c03_list_remove_at_c4_l1_f0, remove_at_contract, 4, 1, 0);
    // @harness ids=C03,C01 tier=thorough kind=bounded bound="capacity=4 (storage length 1, free-stack length 0; all contents, links, versions symbolic under the invariant)" units=outstation::database::details::event::list::VecList::remove_first,outstation::database::details::event::list::VecList::find_first timeout=250 note="for every predicate (symbolic truth table): removes exactly the oldest matching element and returns its data, None and unchanged iff none matches; invariant restored"
    list_harness!(vk_c03_list_remove_first_c4_l1_f0, remove_first_contract, 4, 1, 0);
    // @harness ids=C03,C01 tier=thorough kind=bounded bound="capacity=4 (storage length 1, free-stack length 0; all contents, links, versions symbolic under the invariant)" units=outstation::database::details::event::list::VecList::iter,outstation::database::details::event::list::ListIterator::next,outstation::database::details::event::list::VecList::find_first,outstation::database::details::event::list::VecList::len,outstation::database::details::event::list::VecList::is_full timeout=250 note="iteration yields exactly the live elements oldest first with their handles; find_first returns the oldest match; nothing changes"
    list_harness!(vk_c03_list_iter_c4_l1_f0, iter_contract, 4, 1, 0);
    // @harness ids=C03,C01 tier=thorough kind=bounded bound="capacity=4 (storage length 1, free-stack length 1; all contents, links, versions symbolic under the invariant)" units=outstation::database::details::event::list::VecList::add timeout=250 note="add appends at the tail under a fresh handle, earlier elements keep order/handle/data; a full list refuses and is unchanged; invariant restored"
    list_harness!(vk_c03_list_add_c4_l1_f1, add_contract, 4, 1, 1);
    // @harness ids=C03,C01 tier=thorough kind=bounded bound="capacity=4 (storage length 1, free-stack length 1; all contents, links, versions symbolic under the invariant)" units=outstation::database::details::event::list::VecList::remove_at timeout=250 note="for every handle value: removes exactly the addressed element iff the slot is live and the version matches, order of the others unchanged, else nothing changes; invariant restored"
    list_harness!(vk_c03_list_remove_at_c4_l1_f1, remove_at_contract, 4, 1, 1);
    // @harness ids=C03,C01 tier=thorough kind=bounded bound="capacity=4 (storage length 1, free-stack length 1; all contents, links, versions symbolic under the invariant)" units=outstation::database::details::event::list::VecList::remove_first,outstation::database::details::event::list::VecList::find_first timeout=250 note="for every predicate (symbolic truth table): removes exactly the oldest matching element and returns its data, None and unchanged iff none matches; invariant restored"
    list_harness!(vk_c03_list_remove_first_c4_l1_f1, remove_first_contract, 4, 1, 1);
    // @harness ids=C03,C01 tier=thorough kind=bounded bound="capacity=4 (storage length 1, free-stack length 1; all contents, links, versions symbolic under the invariant)" units=outstation::database::details::event::list::VecList::iter,outstation::database::details::event::list::ListIterator::next,outstation::database::details::event::list::VecList::find_first,outstation::database::details::event::list::VecList::len,outstation::database::details::event::list::VecList::is_full timeout=250 note="iteration yields exactly the live elements oldest first with their handles; find_first returns the oldest match; nothing changes"
    list_harness!(vk_c03_list_iter_c4_l1_f1, iter_contract, 4, 1, 1);
    // @harness ids=C03,C01 tier=thorough kind=bounded bound="capacity=4 (storage length 2, free-stack length 0; all contents, links, versions symbolic under the invariant)" units=outstation::database::details::event::list::VecList::add timeout=250 note="add appends at the tail under a fresh handle, earlier elements keep order/handle/data; a full list refuses and is unchanged; invariant restored"
    list_harness!(vk_c03_list_add_c4_l2_f0, add_contract, 4, 2, 0);
    // @harness ids=C03,C01 tier=thorough kind=bounded bound="capacity=4 (storage length 2, free-stack length 0; all contents, links, versions symbolic under the invariant)" units=outstation::database::details::event::list::VecList::remove_at timeout=250 note="for every handle value: removes exactly the addressed element iff the slot is live and the version matches, order of the others unchanged, else nothing changes; invariant restored"
    list_harness!(vk_c03_list_remove_at_c4_l2_f0, remove_at_contract, 4, 2, 0);
    // @harness ids=C03,C01 tier=thorough kind=bounded bound="capacity=4 (storage length 2, free-stack length 0; all contents, links, versions symbolic under the invariant)" units=outstation::database::details::event::list::VecList::remove_first,outstation::database::details::event::list::VecList::find_first timeout=250 note="for every predicate (symbolic truth table): removes exactly the oldest matching element and returns its data, None and unchanged iff none matches; invariant restored"
    list_harness!(vk_c03_list_remove_first_c4_l2_f0, remove_first_contract, 4, 2, 0);
    // @harness ids=C03,C01 tier=thorough kind=bounded bound="capacity=4 (storage length 2, free-stack length 0; all contents, links, versions symbolic under the invariant)" units=outstation::database::details::event::list::VecList::iter,outstation::database::details::event::list::ListIterator::next,outstation::database::details::event::list::VecList::find_first,outstation::database::details::event::list::VecList::len,outstation::database::details::event::list::VecList::is_full timeout=250 note="iteration yields exactly the live elements oldest first with their handles; find_first returns the oldest match; nothing changes"
    list_harness!(vk_c03_list_iter_c4_l2_f0, iter_contract, 4, 2, 0);
    // @harness ids=C03,C01 tier=thorough kind=bounded bound="capacity=4 (storage length 2, free-stack length 1; all contents, links, versions symbolic under the invariant)" units=outstation::database::details::event::list::VecList::add timeout=250 note="add appends at the tail under a fresh handle, earlier elements keep order/handle/data; a full list refuses and is unchanged; invariant restored"
    list_harness!(vk_c03_list_add_c4_l2_f1, add_contract, 4, 2, 1);
    // @harness ids=C03,C01 tier=thorough kind=bounded bound="capacity=4 (storage length 2, free-stack length 1; all contents, links, versions symbolic under the invariant)" units=outstation::database::details::event::list::VecList::remove_at timeout=250 note="for every handle value: removes exactly the addressed element iff the slot is live and the version matches, order of the others unchanged, else nothing changes; invariant restored"
    list_harness!(vk_c03_list_remove_at_c4_l2_f1, remove_at_contract, 4, 2, 1);
    // @harness ids=C03,C01 tier=thorough kind=bounded bound="capacity=4 (storage length 2, free-stack length 1; all contents, links, versions symbolic under the invariant)" units=outstation::database::details::event::list::VecList::remove_first,outstation::database::details::event::list::VecList::find_first timeout=250 note="for every predicate (symbolic truth table): removes exactly the oldest matching element and returns its data, None and unchanged iff none matches; invariant restored"
    list_harness!(vk_c03_list_remove_first_c4_l2_f1, remove_first_contract, 4, 2, 1);
    // @harness ids=C03,C01 tier=thorough kind=bounded bound="capacity=4 (storage length 2, free-stack length 1; all contents, links, versions symbolic under the invariant)" units=outstation::database::details::event::list::VecList::iter,outstation::database::details::event::list::ListIterator::next,outstation::database::details::event::list::VecList::find_first,outstation::database::details::event::list::VecList::len,outstation::database::details::event::list::VecList::is_full timeout=250 note="iteration yields exactly the live elements oldest first with their handles; find_first returns the oldest match; nothing changes"
    list_harness!(vk_c03_list_iter_c4_l2_f1, iter_contract, 4, 2, 1);
    // @harness ids=C03,C01 tier=thorough kind=bounded bound="capacity=4 (storage length 2, free-stack length 2; all contents, links, versions symbolic under the invariant)" units=outstation::database::details::event::list::VecList::add timeout=250 note="add appends at the tail under a fresh handle, earlier elements keep order/handle/data; a full list refuses and is unchanged; invariant restored"
    list_harness!(vk_c03_list_add_c4_l2_f2, add_contract, 4, 2, 2);
    // @harness ids=C03,C01 tier=thorough kind=bounded bound="capacity=4 (storage length 2, free-stack length 2; all contents, links, versions symbolic under the invariant)" units=outstation::database::details::event::list::VecList::remove_at timeout=250 note="for every handle value: removes exactly the addressed element iff the slot is live and the version matches, order of the others unchanged, else nothing changes; invariant restored"
    list_harness!(vk_c03_list_remove_at_c4_l2_f2, remove_at_contract, 4, 2, 2);
    // @harness ids=C03,C01 tier=thorough kind=bounded bound="capacity=4 (storage length 2, free-stack length 2; all contents, links, versions symbolic under the invariant)" units=outstation::database::details::event::list::VecList::remove_first,outstation::database::details::event::list::VecList::find_first timeout=250 note="for every predicate (symbolic truth table): removes exactly the oldest matching element and returns its data, None and unchanged iff none matches; invariant restored"
    list_harness!(vk_c03_list_remove_first_c4_l2_f2, remove_first_contract, 4, 2, 2);
    // @harness ids=C03,C01 tier=thorough kind=bounded bound="capacity=4 (storage length 2, free-stack length 2; all contents, links, versions symbolic under the invariant)" units=outstation::database::details::event::list::VecList::iter,outstation::database::details::event::list::ListIterator::next,outstation::database::details::event::list::VecList::find_first,outstation::database::details::event::list::VecList::len,outstation::database::details::event::list::VecList::is_full timeout=250 note="iteration yields exactly the live elements oldest first with their handles; find_first returns the oldest match; nothing changes"
    list_harness!(vk_c03_list_iter_c4_l2_f2, iter_contract, 4, 2, 2);
    // @harness ids=C03,C01 tier=thorough kind=bounded bound="capacity=4 (storage length 3, free-stack length 0; all contents, links, versions symbolic under the invariant)" units=outstation::database::details::event::list::VecList::add timeout=250 note="add appends at the tail under a fresh handle, earlier elements keep order/handle/data; a full list refuses and is unchanged; invariant restored"
    list_harness!(vk_c03_list_add_c4_l3_f0, add_contract, 4, 3, 0);
    // @harness ids=C03,C01 tier=thorough kind=bounded bound="capacity=4 (storage length 3, free-stack length 0; all contents, links, versions symbolic under the invariant)" units=outstation::database::details::event::list::VecList::remove_at timeout=250 note="for every handle value: removes exactly the addressed element iff the slot is live and the version matches, order of the others unchanged, else nothing changes; invariant restored"
    list_harness!(vk_c03_list_remove_at_c4_l3_f0, remove_at_contract, 4, 3, 0);
    // @harness ids=C03,C01 tier=thorough kind=bounded bound="capacity=4 (storage length 3, free-stack length 0; all contents, links, versions symbolic under the invariant)" units=outstation::database::details::event::list::VecList::remove_first,outstation::database::details::event::list::VecList::find_first timeout=250 note="for every predicate (symbolic truth table): removes exactly the oldest matching element and returns its data, None and unchanged iff none matches; invariant restored"
    list_harness!(vk_c03_list_remove_first_c4_l3_f0, remove_first_contract, 4, 3, 0);
    // @harness ids=C03,C01 tier=thorough kind=bounded bound="capacity=4 (storage length 3, free-stack length 0; all contents, links, versions symbolic under the invariant)" units=outstation::database::details::event::list::VecList::iter,outstation::database::details::event::list::ListIterator::next,outstation::database::details::event::list::VecList::find_first,outstation::database::details::event::list::VecList::len,outstation::database::details::event::list::VecList::is_full timeout=250 note="iteration yields exactly the live elements oldest first with their handles; find_first returns the oldest match; nothing changes"
    list_harness!(vk_c03_list_iter_c4_l3_f0, iter_contract, 4, 3, 0);
    // @harness ids=C03,C01 tier=thorough kind=bounded bound="capacity=4 (storage length 3, free-stack length 1; all contents, links, versions symbolic under the invariant)" units=outstation::database::details::event::list::VecList::add timeout=250 note="add appends at the tail under a fresh handle, earlier elements keep order/handle/data; a full list refuses and is unchanged; invariant restored"
    list_harness!(vk_c03_list_add_c4_l3_f1, add_contract, 4, 3, 1);
    // @harness ids=C03,C01 tier=thorough kind=bounded bound="capacity=4 (storage length 3, free-stack length 1; all contents, links, versions symbolic under the invariant)" units=outstation::database::details::event::list::VecList::remove_at timeout=250 note="for every handle value: removes exactly the addressed element iff the slot is live and the version matches, order of the others unchanged, else nothing changes; invariant restored"
    list_harness!(vk_c03_list_remove_at_c4_l3_f1, remove_at_contract, 4, 3, 1);
    // @harness ids=C03,C01 tier=thorough kind=bounded bound="capacity=4 (storage length 3, free-stack length 1; all contents, links, versions symbolic under the invariant)" units=outstation::database::details::event::list::VecList::remove_first,outstation::database::details::event::list::VecList::find_first timeout=250 note="for every predicate (symbolic truth table): removes exactly the oldest matching element and returns its data, None and unchanged iff none matches; invariant restored"
    list_harness!(vk_c03_list_remove_first_c4_l3_f1, remove_first_contract, 4, 3, 1);
    // @harness ids=C03,C01 tier=thorough kind=bounded bound="capacity=4 (storage length 3, free-stack length 1; all contents, links, versions symbolic under the invariant)" units=outstation::database::details::event::list::VecList::iter,outstation::database::details::event::list::ListIterator::next,outstation::database::details::event::list::VecList::find_first,outstation::database::details::event::list::VecList::len,outstation::database::details::event::list::VecList::is_full timeout=250 note="iteration yields exactly the live elements oldest first with their handles; find_first returns the oldest match; nothing changes"
    list_harness!(vk_c03_list_iter_c4_l3_f1, iter_contract, 4, 3, 1);
    // @harness ids=C03,C01 tier=thorough kind=bounded bound="capacity=4 (storage length 3, free-stack length 2; all contents, links, versions symbolic under the invariant)" units=outstation::database::details::event::list::VecList::add timeout=250 note="add appends at the tail under a fresh handle, earlier elements keep order/handle/data; a full list refuses and is unchanged; invariant restored"
    list_harness!(vk_c03_list_add_c4_l3_f2, add_contract, 4, 3, 2);
    // @harness ids=C03,C01 tier=thorough kind=bounded bound="capacity=4 (storage length 3, free-stack length 2; all contents, links, versions symbolic under the invariant)" units=outstation::database::details::event::list::VecList::remove_at timeout=250 note="for every handle value: removes exactly the addressed element iff the slot is live and the version matches, order of the others unchanged, else nothing changes; invariant restored"
    list_harness!(vk_c03_list_remove_at_c4_l3_f2, remove_at_contract, 4, 3, 2);
    // @harness ids=C03,C01 tier=thorough kind=bounded bound="capacity=4 (storage length 3, free-stack length 2; all contents, links, versions symbolic under the invariant)" units=outstation::database::details::event::list::VecList::remove_first,outstation::database::details::event::list::VecList::find_first timeout=250 note="for every predicate (symbolic truth table): removes exactly the oldest matching element and returns its data, None and unchanged iff none matches; invariant restored"
    list_harness!(vk_c03_list_remove_first_c4_l3_f2, remove_first_contract, 4, 3, 2);
    // @harness ids=C03,C01 tier=thorough kind=bounded bound="capacity=4 (storage length 3, free-stack length 2; all contents, links, versions symbolic under the invariant)" units=outstation::database::details::event::list::VecList::iter,outstation::database::details::event::list::ListIterator::next,outstation::database::details::event::list::VecList::find_first,outstation::database::details::event::list::VecList::len,outstation::database::details::event::list::VecList::is_full timeout=250 note="iteration yields exactly the live elements oldest first with their handles; find_first returns the oldest match; nothing changes"
    list_harness!(vk_c03_list_iter_c4_l3_f2, iter_contract, 4, 3, 2);
    // @harness ids=C03,C01 tier=thorough kind=bounded bound="capacity=4 (storage length 3, free-stack length 3; all contents, links, versions symbolic under the invariant)" units=outstation::database::details::event::list::VecList::add timeout=250 note="add appends at the tail under a fresh handle, earlier elements keep order/handle/data; a full list refuses and is unchanged; invariant restored"
    list_harness!(vk_c03_list_add_c4_l3_f3, add_contract, 4, 3, 3);
    // @harness ids=C03,C01 tier=thorough kind=bounded bound="capacity=4 (storage length 3, free-stack length 3; all contents, links, versions symbolic under the invariant)" units=outstation::database::details::event::list::VecList::remove_at timeout=250 note="for every handle value: removes exactly the addressed element iff the slot is live and the version matches, order of the others unchanged, else nothing changes; invariant restored"
    list_harness!(vk_c03_list_remove_at_c4_l3_f3, remove_at_contract, 4, 3, 3);
    // @harness ids=C03,C01 tier=thorough kind=bounded bound="capacity=4 (storage length 3, free-stack length 3; all contents, links, versions symbolic under the invariant)" units=outstation::database::details::event::list::VecList::remove_first,outstation::database::details::event::list::VecList::find_first timeout=250 note="for every predicate (symbolic truth table): removes exactly the oldest matching element and returns its data, None and unchanged iff none matches; invariant restored"
    list_harness!(vk_c03_list_remove_first_c4_l3_f3, remove_first_contract, 4, 3, 3);
    // @harness ids=C03,C01 tier=thorough kind=bounded bound="capacity=4 (storage length 3, free-stack length 3; all contents, links, versions symbolic under the invariant)" units=outstation::database::details::event::list::VecList::iter,outstation::database::details::event::list::ListIterator::next,outstation::database::details::event::list::VecList::find_first,outstation::database::details::event::list::VecList::len,outstation::database::details::event::list::VecList::is_full timeout=250 note="iteration yields exactly the live elements oldest first with their handles; find_first returns the oldest match; nothing changes"
    list_harness!(vk_c03_list_iter_c4_l3_f3, iter_contract, 4, 3, 3);
    // @harness ids=C03,C01 tier=thorough kind=bounded bound="capacity=4 (storage length 4, free-stack length 0; all contents, links, versions symbolic under the invariant)" units=outstation::database::details::event::list::VecList::add timeout=250 note="add appends at the tail under a fresh handle, earlier elements keep order/handle/data; a full list refuses and is unchanged; invariant restored"
    list_harness!(vk_c03_list_add_c4_l4_f0, add_contract, 4, 4, 0);
    // @harness ids=C03,C01 tier=thorough kind=bounded bound="capacity=4 (storage length 4, free-stack length 0; all contents, links, versions symbolic under the invariant)" units=outstation::database::details::event::list::VecList::remove_at timeout=250 note="for every handle value: removes exactly the addressed element iff the slot is live and the version matches, order of the others unchanged, else nothing changes; invariant restored"
    list_harness!(vk_c03_list_remove_at_c4_l4_f0, remove_at_contract, 4, 4, 0);
    // @harness ids=C03,C01 tier=thorough kind=bounded bound="capacity=4 (storage length 4, free-stack length 0; all contents, links, versions symbolic under the invariant)" units=outstation::database::details::event::list::VecList::remove_first,outstation::database::details::event::list::VecList::find_first timeout=250 note="for every predicate (symbolic truth table): removes exactly the oldest matching element and returns its data, None and unchanged iff none matches; invariant restored"
    list_harness!(vk_c03_list_remove_first_c4_l4_f0, remove_first_contract, 4, 4, 0);
    // @harness ids=C03,C01 tier=thorough kind=bounded bound="capacity=4 (storage length 4, free-stack length 0; all contents, links, versions symbolic under the invariant)" units=outstation::database::details::event::list::VecList::iter,outstation::database::details::event::list::ListIterator::next,outstation::database::details::event::list::VecList::find_first,outstation::database::details::event::list::VecList::len,outstation::database::details::event::list::VecList::is_full timeout=250 note="iteration yields exactly the live elements oldest first with their handles; find_first returns the oldest match; nothing changes"
    list_harness!(vk_c03_list_iter_c4_l4_f0, iter_contract, 4, 4, 0);
    // @harness ids=C03,C01 tier=thorough kind=bounded bound="capacity=4 (storage length 4, free-stack length 1; all contents, links, versions symbolic under the invariant)" units=outstation::database::details::event::list::VecList::add timeout=250 note="add appends at the tail under a fresh handle, earlier elements keep order/handle/data; a full list refuses and is unchanged; invariant restored"
    list_harness!(vk_c03_list_add_c4_l4_f1, add_contract, 4, 4, 1);
    // @harness ids=C03,C01 tier=thorough kind=bounded bound="capacity=4 (storage length 4, free-stack length 1; all contents, links, versions symbolic under the invariant)" units=outstation::database::details::event::list::VecList::remove_at timeout=250 note="for every handle value: removes exactly the addressed element iff the slot is live and the version matches, order of the others unchanged, else nothing changes; invariant restored"
    list_harness!(vk_c03_list_remove_at_c4_l4_f1, remove_at_contract, 4, 4, 1);
    // @harness ids=C03,C01 tier=thorough kind=bounded bound="capacity=4 (storage length 4, free-stack length 1; all contents, links, versions symbolic under the invariant)" units=outstation::database::details::event::list::VecList::remove_first,outstation::database::details::event::list::VecList::find_first timeout=250 note="for every predicate (symbolic truth table): removes exactly the oldest matching element and returns its data, None and unchanged iff none matches; invariant restored"
    list_harness!(vk_c03_list_remove_first_c4_l4_f1, remove_first_contract, 4, 4, 1);
    // @harness ids=C03,C01 tier=thorough kind=bounded bound="capacity=4 (storage length 4, free-stack length 1; all contents, links, versions symbolic under the invariant)" units=outstation::database::details::event::list::VecList::iter,outstation::database::details::event::list::ListIterator::next,outstation::database::details::event::list::VecList::find_first,outstation::database::details::event::list::VecList::len,outstation::database::details::event::list::VecList::is_full timeout=250 note="iteration yields exactly the live elements oldest first with their handles; find_first returns the oldest match; nothing changes"
    list_harness!(vk_c03_list_iter_c4_l4_f1, iter_contract, 4, 4, 1);
    // @harness ids=C03,C01 tier=thorough kind=bounded bound="capacity=4 (storage length 4, free-stack length 2; all contents, links, versions symbolic under the invariant)" units=outstation::database::details::event::list::VecList::add timeout=250 note="add appends at the tail under a fresh handle, earlier elements keep order/handle/data; a full list refuses and is unchanged; invariant restored"
    list_harness!(vk_c03_list_add_c4_l4_f2, add_contract, 4, 4, 2);
    // @harness ids=C03,C01 tier=thorough kind=bounded bound="capacity=4 (storage length 4, free-stack length 2; all contents, links, versions symbolic under the invariant)" units=outstation::database::details::event::list::VecList::remove_at timeout=250 note="for every handle value: removes exactly the addressed element iff the slot is live and the version matches, order of the others unchanged, else nothing changes; invariant restored"
    list_harness!(vk_c03_list_remove_at_c4_l4_f2, remove_at_contract, 4, 4, 2);
    // @harness ids=C03,C01 tier=thorough kind=bounded bound="capacity=4 (storage length 4, free-stack length 2; all contents, links, versions symbolic under the invariant)" units=outstation::database::details::event::list::VecList::remove_first,outstation::database::details::event::list::VecList::find_first timeout=250 note="for every predicate (symbolic truth table): removes exactly the oldest matching element and returns its data, None and unchanged iff none matches; invariant restored"
    list_harness!(vk_c03_list_remove_first_c4_l4_f2, remove_first_contract, 4, 4, 2);
    // @harness ids=C03,C01 tier=thorough kind=bounded bound="capacity=4 (storage length 4, free-stack length 2; all contents, links, versions symbolic under the invariant)" units=outstation::database::details::event::list::VecList::iter,outstation::database::details::event::list::ListIterator::next,outstation::database::details::event::list::VecList::find_first,outstation::database::details::event::list::VecList::len,outstation::database::details::event::list::VecList::is_full timeout=250 note="iteration yields exactly the live elements oldest first with their handles; find_first returns the oldest match; nothing changes"
    list_harness!(vk_c03_list_iter_c4_l4_f2, iter_contract, 4, 4, 2);
    // @harness ids=C03,C01 tier=thorough kind=bounded bound="capacity=4 (storage length 4, free-stack length 3; all contents, links, versions symbolic under the invariant)" units=outstation::database::details::event::list::VecList::add timeout=250 note="add appends at the tail under a fresh handle, earlier elements keep order/handle/data; a full list refuses and is unchanged; invariant restored"
    list_harness!(vk_c03_list_add_c4_l4_f3, add_contract, 4, 4, 3);
    // @harness ids=C03,C01 tier=thorough kind=bounded bound="capacity=4 (storage length 4, free-stack length 3; all contents, links, versions symbolic under the invariant)" units=outstation::database::details::event::list::VecList::remove_at timeout=250 note="for every handle value: removes exactly the addressed element iff the slot is live and the version matches, order of the others unchanged, else nothing changes; invariant restored"
    list_harness!(vk_c03_list_remove_at_c4_l4_f3, remove_at_contract, 4, 4, 3);
    // @harness ids=C03,C01 tier=thorough kind=bounded bound="capacity=4 (storage length 4, free-stack length 3; all contents, links, versions symbolic under the invariant)" units=outstation::database::details::event::list::VecList::remove_first,outstation::database::details::event::list::VecList::find_first timeout=250 note="for every predicate (symbolic truth table): removes exactly the oldest matching element and returns its data, None and unchanged iff none matches; invariant restored"
    list_harness!(vk_c03_list_remove_first_c4_l4_f3, remove_first_contract, 4, 4, 3);
    // @harness ids=C03,C01 tier=thorough kind=bounded bound="capacity=4 (storage length 4, free-stack length 3; all contents, links, versions symbolic under the invariant)" units=outstation::database::details::event::list::VecList::iter,outstation::database::details::event::list::ListIterator::next,outstation::database::details::event::list::VecList::find_first,outstation::database::details::event::list::VecList::len,outstation::database::details::event::list::VecList::is_full timeout=250 note="iteration yields exactly the live elements oldest first with their handles; find_first returns the oldest match; nothing changes"
    list_harness!(vk_c03_list_iter_c4_l4_f3, iter_contract, 4, 4, 3);
    // @harness ids=C03,C01 tier=thorough kind=bounded bound="capacity=4 (storage length 4, free-stack length 4; all contents, links, versions symbolic under the invariant)" units=outstation::database::details::event::list::VecList::add timeout=250 note="add appends at the tail under a fresh handle, earlier elements keep order/handle/data; a full list refuses and is unchanged; invariant restored"
    list_harness!(vk_c03_list_add_c4_l4_f4, add_contract, 4, 4, 4);
    // @harness ids=C03,C01 tier=thorough kind=bounded bound="capacity=4 (storage length 4, free-stack length 4; all contents, links, versions symbolic under the invariant)" units=outstation::database::details::event::list::VecList::remove_at timeout=250 note="for every handle value: removes exactly the addressed element iff the slot is live and the version matches, order of the others unchanged, else nothing changes; invariant restored"
    list_harness!(vk_c03_list_remove_at_c4_l4_f4, remove_at_contract, 4, 4, 4);
    // @harness ids=C03,C01 tier=thorough kind=bounded bound="capacity=4 (storage length 4, free-stack length 4; all contents, links, versions symbolic under the invariant)" units=outstation::database::details::event::list::VecList::remove_first,outstation::database::details::event::list::VecList::find_first timeout=250 note="for every predicate (symbolic truth table): removes exactly the oldest matching element and returns its data, None and unchanged iff none matches; invariant restored"
    list_harness!(vk_c03_list_remove_first_c4_l4_f4, remove_first_contract, 4, 4, 4);
    // @harness ids=C03,C01 tier=thorough kind=bounded bound="capacity=4 (storage length 4, free-stack length 4; all contents, links, versions symbolic under the invariant)" units=outstation::database::details::event::list::VecList::iter,outstation::database::details::event::list::ListIterator::next,outstation::database::details::event::list::VecList::find_first,outstation::database::details::event::list::VecList::len,outstation::database::details::event::list::VecList::is_full timeout=250 note="iteration yields exactly the live elements oldest first with their handles; find_first returns the oldest match; nothing changes"
    list_harness!(vk_c03_list_iter_c4_l4_f4, iter_contract, 4, 4, 4);
