    use crate::app::variations::verif_kani_c09_fixed as fx;
    use crate::verif_spec as spec;
    // @harness ids=C09 tier=quick kind=proof units=app::variations::Group12Var1::write timeout=300 note="experiment: g12v1 without the type invariant"
    #[kani::proof]
    #[kani::unwind(18)]
    fn vk_c09_x_g12v1_unconstrained() {
        let v = Group12Var1 { code: fx::any_control_code_unconstrained(), count: kani::any(), on_time: kani::any(), off_time: kani::any(), status: fx::any_command_status_unconstrained() };
        let mut buf = [0u8; 11];
        {
            let mut w = WriteCursor::new(&mut buf);
            assert!(v.write(&mut w).is_ok());
        }
        let mut c = ReadCursor::new(&buf);
        match Group12Var1::read(&mut c) {
            Ok(x) => {
                assert!(x.code.tcc.as_u8() == v.code.tcc.as_u8(), "tcc wire value kept");
                assert!(x.code.op_type.as_u8() == v.code.op_type.as_u8(), "op_type wire value kept");
                assert!(x.code.clear == v.code.clear, "clear kept");
                assert!(x.code.queue == v.code.queue, "queue kept");
                assert!(x.status.as_u8() == v.status.as_u8(), "status wire value kept");
                assert!(x.status == v.status, "status variant kept");
            }
            Err(_) => assert!(false),
        }
        kani::cover!(true);
    }
