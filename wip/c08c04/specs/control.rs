// Spec functions for select-before-operate (C04), written from IEEE 1815 4.4.4 / 7.5.1.2 and the property text.
// Intersection of Rust and Verus syntax: every arithmetic result carries an explicit `as T`.

/// successor of an application-layer sequence number, modulo 16
pub fn app_seq_next(s: u8) -> u8 { ((((s & 0x0Fu8) as u16 + 1u16) as u16) % 16u16) as u8 }

/// nanoseconds of a (seconds, nanoseconds) pair; exact for secs < 2^64, nanos < 2^32
pub fn ts_nanos(secs: u64, nanos: u32) -> u128 {
    (((secs as u128) * 1000000000u128) as u128 + (nanos as u128)) as u128
}

/// An OPERATE (`seq`, id of the fragment that carried it, hash of its control objects, arrival time) matches the
/// recorded SELECT iff it carries the next sequence number, is the very next fragment received, has byte-identical
/// objects (equal hash; collisions are the stated assumption) and arrives no later than `timeout` after the SELECT.
pub fn match_operate_ok(
    sel_seq: u8, sel_frame_id: u32, sel_hash: u64, sel_secs: u64, sel_nanos: u32,
    seq: u8, frame_id: u32, hash: u64, now_secs: u64, now_nanos: u32,
    timeout_secs: u64, timeout_nanos: u32,
) -> bool {
    let next_frame: u32 = (((sel_frame_id as u64 + 1u64) as u64) % 4294967296u64) as u32;
    let t_sel: u128 = ts_nanos(sel_secs, sel_nanos);
    let t_now: u128 = ts_nanos(now_secs, now_nanos);
    let t_out: u128 = ts_nanos(timeout_secs, timeout_nanos);
    (seq & 0x0Fu8) == app_seq_next(sel_seq)
        && frame_id == next_frame
        && hash == sel_hash
        && t_now >= t_sel
        && ((t_now - t_sel) as u128) <= t_out
}
