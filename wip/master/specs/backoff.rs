// Spec functions for C17 retry back-off, written from the property text
// ("a failing automatic task is retried after delays that start at the configured minimum, double each time and
//  never exceed the maximum"), not from the code. Explicit `as T` on every arithmetic result (Rust/Verus intersection).

/// Delay after one more consecutive failure, in whole milliseconds.
/// `has_last == false`: no failure since the last success (or since start) -> the configured minimum.
/// otherwise: twice the previous delay, capped at the configured maximum (mathematical doubling: no wrap-around).
/// Precondition of the property: min <= max.
pub fn backoff_next(min: u64, max: u64, has_last: bool, last: u64) -> u64 {
    if !has_last {
        return min;
    }
    let doubled: u128 = ((last as u128) * 2u128) as u128;
    if doubled > (max as u128) { max } else { doubled as u64 }
}

/// Same rule at the resolution of the configuration type (nanoseconds; a `Duration` is < 2^64 s = < 2^94 ns, so u128
/// holds the mathematical double of any representable delay).
pub fn backoff_next_ns(min: u128, max: u128, has_last: bool, last: u128) -> u128 {
    if !has_last {
        return min;
    }
    let doubled: u128 = (last * 2u128) as u128;
    if doubled > max { max } else { doubled }
}

/// Delay of the k-th consecutive failure (1 <= k <= 64) in milliseconds, closed form: min(min * 2^(k-1), max).
pub fn backoff_kth(min: u64, max: u64, k: u32) -> u64 {
    let scaled: u128 = ((min as u128) << ((k - 1u32) as u32)) as u128;
    if scaled > (max as u128) { max } else { scaled as u64 }
}
