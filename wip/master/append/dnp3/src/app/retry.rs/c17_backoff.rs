    use crate::verif_spec as spec;

    // ---- helpers shared with the association fragment (fields of ExponentialBackOff are private to this module)
    pub(crate) fn mk_backoff(min: Duration, max: Duration, last: Option<Duration>) -> ExponentialBackOff {
        ExponentialBackOff { strategy: RetryStrategy { min_delay: min, max_delay: max }, last }
    }
    pub(crate) fn last_of(b: &ExponentialBackOff) -> Option<Duration> { b.last }
    pub(crate) fn min_of(b: &ExponentialBackOff) -> Duration { b.strategy.min_delay }
    pub(crate) fn max_of(b: &ExponentialBackOff) -> Duration { b.strategy.max_delay }

    pub(crate) fn any_duration() -> Duration {
        let s: u64 = kani::any();
        let n: u32 = kani::any();
        kani::assume(n < 1_000_000_000); // @assume: type invariant of Duration (sub-second part below one second)
        Duration::new(s, n)
    }

    /// a whole-millisecond Duration given as (seconds, milliseconds < 1000): identical to `Duration::from_millis(s*1000+r)`
    /// but without a 64-bit division in the harness; returns the Duration and its millisecond count
    fn ms_duration(s: u64, r: u32) -> (Duration, u64) {
        (Duration::new(s, r * 1_000_000), s * 1000 + (r as u64))
    }

    fn any_ms_duration() -> (Duration, u64) {
        let s: u64 = kani::any();
        let r: u32 = kani::any();
        kani::assume(r < 1000 && (s < u64::MAX / 1000 || (s == u64::MAX / 1000 && r <= (u64::MAX % 1000) as u32))); // @assume: harness domain = every Duration::from_millis(x), x: u64, split as x = 1000*s + r
        ms_duration(s, r)
    }

    /// millisecond count of a Duration that must be a whole number of milliseconds
    fn exact_ms(d: Duration) -> u128 {
        assert!(d.subsec_nanos() % 1_000_000 == 0);
        (d.as_secs() as u128) * 1000u128 + ((d.subsec_nanos() / 1_000_000) as u128)
    }

    /// type invariant of a live back-off object under the property's precondition min <= max:
    /// no failure yet, or the last delay lies within [min, max]
    pub(crate) fn backoff_inv(b: &ExponentialBackOff) -> bool {
        b.strategy.min_delay <= b.strategy.max_delay
            && match b.last { None => true, Some(l) => b.strategy.min_delay <= l && l <= b.strategy.max_delay }
    }

    // @harness ids=C17,C01 tier=quick kind=proof units=app::retry::ExponentialBackOff::on_failure,app::retry::ExponentialBackOff::on_success,app::retry::ExponentialBackOff::new timeout=600 note="every whole-millisecond configuration (all u64 ms) with min<=max, any state within the invariant: next delay = spec backoff_next in ms (min first, then min(2*last,max)), stored as the new last, min<=delay<=max, configuration unchanged; new/on_success give the no-failure state and the sequence restarts at min"
    #[kani::proof]
    fn vk_c17_backoff_ms() {
        let (dmin, min) = any_ms_duration();
        let (dmax, max) = any_ms_duration();
        let (dlast, last) = any_ms_duration();
        let has_last: bool = kani::any();
        kani::assume(min <= max); // @assume: property precondition min <= max (RetryStrategy::new does not enforce it: observation)
        kani::assume(!has_last || (min <= last && last <= max)); // @assume: invariant established by new/on_failure (proved here and in vk_c17_backoff_full_domain)
        let mut b = if has_last { mk_backoff(dmin, dmax, Some(dlast)) } else { ExponentialBackOff::new(RetryStrategy::new(dmin, dmax)) };
        assert!(backoff_inv(&b));
        if !has_last { assert!(b.last.is_none()); }
        let d = b.on_failure();
        let want = spec::backoff_next(min, max, has_last, last);
        assert!(exact_ms(d) == (want as u128));
        assert!(b.last == Some(d));
        assert!(dmin <= d && d <= dmax);
        assert!(b.strategy.min_delay == dmin && b.strategy.max_delay == dmax);
        assert!(backoff_inv(&b));
        kani::cover!(!has_last);
        kani::cover!(has_last && want == max && last < max);
        kani::cover!(has_last && want < max && (want as u128) == 2u128 * (last as u128) && last > 0);
        b.on_success();
        assert!(b.last.is_none());
        assert!(b.strategy.min_delay == dmin && b.strategy.max_delay == dmax);
        // after a success the sequence starts again at the minimum
        assert!(b.on_failure() == dmin);
    }

    // @harness ids=C17,C01 tier=quick kind=proof units=app::retry::ExponentialBackOff::on_failure timeout=600 note="every representable Duration configuration with min<=max and any state within the invariant, at full (seconds,nanoseconds) resolution: delay = min first, then min(2*last,max) in unbounded arithmetic (doubling beyond the Duration range yields max), min<=delay<=max, invariant preserved, no panic"
    #[kani::proof]
    fn vk_c17_backoff_full_domain() {
        let dmin = any_duration();
        let dmax = any_duration();
        let has_last: bool = kani::any();
        let dlast = any_duration();
        kani::assume(dmin <= dmax); // @assume: property precondition min <= max
        kani::assume(!has_last || (dmin <= dlast && dlast <= dmax)); // @assume: invariant (proved preserved here, established by new)
        let mut b = mk_backoff(dmin, dmax, if has_last { Some(dlast) } else { None });
        let d = b.on_failure();
        let (ws, wn) = spec::backoff_next_sn(dmin.as_secs(), dmin.subsec_nanos(), dmax.as_secs(), dmax.subsec_nanos(), has_last, dlast.as_secs(), dlast.subsec_nanos());
        assert!(d.as_secs() == ws && d.subsec_nanos() == wn);
        assert!(b.last == Some(d));
        assert!(dmin <= d && d <= dmax);
        assert!(b.strategy.min_delay == dmin && b.strategy.max_delay == dmax);
        assert!(backoff_inv(&b));
        kani::cover!(!has_last);
        kani::cover!(has_last && d == dmax && dlast < dmax);
        kani::cover!(has_last && d < dmax && dlast.subsec_nanos() > 500_000_000);
        kani::cover!(has_last && dlast.as_secs() > u64::MAX / 2); // doubling overflows the Duration range
    }

    // @harness ids=C17 tier=quick kind=bounded bound="first 4 consecutive failures" units=app::retry::ExponentialBackOff::on_failure,app::retry::ExponentialBackOff::on_success timeout=600 note="from a fresh object the k-th consecutive failure (k=1..4) is delayed min(min*2^(k-1),max) ms; a success in between restarts the sequence at min"
    #[kani::proof]
    fn vk_c17_backoff_sequence() {
        let (dmin, min) = any_ms_duration();
        let (dmax, max) = any_ms_duration();
        kani::assume(min <= max); // @assume: property precondition min <= max
        let mut b = ExponentialBackOff::new(RetryStrategy::new(dmin, dmax));
        let d1 = b.on_failure();
        let d2 = b.on_failure();
        let d3 = b.on_failure();
        let d4 = b.on_failure();
        assert!(exact_ms(d1) == (spec::backoff_kth(min, max, 1) as u128));
        assert!(exact_ms(d2) == (spec::backoff_kth(min, max, 2) as u128));
        assert!(exact_ms(d3) == (spec::backoff_kth(min, max, 3) as u128));
        assert!(exact_ms(d4) == (spec::backoff_kth(min, max, 4) as u128));
        assert!(d1 <= d2 && d2 <= d3 && d3 <= d4 && d4 <= dmax);
        b.on_success();
        assert!(b.on_failure() == d1);
        kani::cover!(d4 == dmax && d3 < d4);
        kani::cover!(d4 < dmax && min > 0);
    }
