    use crate::verif_spec as spec;

    // ---- helpers shared with the association fragment (fields of ExponentialBackOff are private to this module)
    pub(crate) fn mk_backoff(min: Duration, max: Duration, last: Option<Duration>) -> ExponentialBackOff {
        ExponentialBackOff { strategy: RetryStrategy { min_delay: min, max_delay: max }, last }
    }
    pub(crate) fn last_of(b: &ExponentialBackOff) -> Option<Duration> { b.last }
    pub(crate) fn min_of(b: &ExponentialBackOff) -> Duration { b.strategy.min_delay }
    pub(crate) fn max_of(b: &ExponentialBackOff) -> Duration { b.strategy.max_delay }

    pub(crate) fn any_duration() -> Duration {
        let s: u64 = kani::any();
        let n: u32 = kani::any();
        kani::assume(n < 1_000_000_000); // @assume: type invariant of Duration (sub-second part below one second)
        Duration::new(s, n)
    }

    fn ns(d: Duration) -> u128 {
        ((d.as_secs() as u128) * 1_000_000_000u128 + (d.subsec_nanos() as u128)) as u128
    }

    /// type invariant of a live back-off object under the property's precondition min <= max:
    /// no failure yet, or the last delay lies within [min, max]
    pub(crate) fn backoff_inv(b: &ExponentialBackOff) -> bool {
        b.strategy.min_delay <= b.strategy.max_delay
            && match b.last { None => true, Some(l) => b.strategy.min_delay <= l && l <= b.strategy.max_delay }
    }

    // @harness ids=C17,C01 tier=quick kind=proof units=app::retry::ExponentialBackOff::on_failure,app::retry::ExponentialBackOff::on_success,app::retry::ExponentialBackOff::new timeout=300 note="millisecond configurations, any state within the invariant (precondition min<=max): next delay = spec backoff_next (min first, then min(2*last,max)), stored as the new last, min<=delay<=max, configuration unchanged; new/on_success give the no-failure state"
    #[kani::proof]
    fn vk_c17_backoff_ms() {
        let (min, max, last): (u64, u64, u64) = (kani::any(), kani::any(), kani::any());
        let has_last: bool = kani::any();
        kani::assume(min <= max); // @assume: property precondition min <= max (RetryStrategy::new does not enforce it: observation)
        kani::assume(!has_last || (min <= last && last <= max)); // @assume: invariant established by new/on_failure (proved below)
        let dmin = Duration::from_millis(min);
        let dmax = Duration::from_millis(max);
        let mut b = if has_last { mk_backoff(dmin, dmax, Some(Duration::from_millis(last))) } else { ExponentialBackOff::new(RetryStrategy::new(dmin, dmax)) };
        assert!(backoff_inv(&b));
        if !has_last { assert!(b.last.is_none()); }
        let d = b.on_failure();
        let want = spec::backoff_next(min, max, has_last, last);
        assert!(d == Duration::from_millis(want));
        assert!(b.last == Some(d));
        assert!(dmin <= d && d <= dmax);
        assert!(b.strategy.min_delay == dmin && b.strategy.max_delay == dmax);
        assert!(backoff_inv(&b));
        kani::cover!(!has_last);
        kani::cover!(has_last && want == max && last < max);
        kani::cover!(has_last && want < max && (want as u128) == 2u128 * (last as u128) && last > 0);
        b.on_success();
        assert!(b.last.is_none());
        assert!(b.strategy.min_delay == dmin && b.strategy.max_delay == dmax);
        // after a success the sequence starts again at the minimum
        assert!(b.on_failure() == dmin);
    }

    // @harness ids=C17,C01 tier=quick kind=proof units=app::retry::ExponentialBackOff::on_failure timeout=300 note="every representable Duration configuration with min<=max and any state within the invariant, at nanosecond resolution: delay = min first, then min(2*last,max) in unbounded arithmetic (doubling beyond the Duration range yields max), min<=delay<=max, invariant preserved, no panic"
    #[kani::proof]
    fn vk_c17_backoff_full_domain() {
        let dmin = any_duration();
        let dmax = any_duration();
        let has_last: bool = kani::any();
        let dlast = any_duration();
        kani::assume(dmin <= dmax); // @assume: property precondition min <= max
        kani::assume(!has_last || (dmin <= dlast && dlast <= dmax)); // @assume: invariant (proved preserved here, established by new)
        let mut b = mk_backoff(dmin, dmax, if has_last { Some(dlast) } else { None });
        let d = b.on_failure();
        let want = spec::backoff_next_ns(ns(dmin), ns(dmax), has_last, ns(dlast));
        assert!(ns(d) == want);
        assert!(b.last == Some(d));
        assert!(dmin <= d && d <= dmax);
        assert!(b.strategy.min_delay == dmin && b.strategy.max_delay == dmax);
        assert!(backoff_inv(&b));
        kani::cover!(!has_last);
        kani::cover!(has_last && d == dmax && dlast < dmax);
        kani::cover!(has_last && d < dmax);
        kani::cover!(has_last && dlast.as_secs() > u64::MAX / 2); // doubling overflows the Duration range
    }

    // @harness ids=C17 tier=quick kind=bounded bound="first 4 consecutive failures" units=app::retry::ExponentialBackOff::on_failure,app::retry::ExponentialBackOff::on_success timeout=300 note="from a fresh object the k-th consecutive failure (k=1..4) is delayed min(min*2^(k-1),max) ms; a success in between restarts the sequence at min"
    #[kani::proof]
    fn vk_c17_backoff_sequence() {
        let (min, max): (u64, u64) = (kani::any(), kani::any());
        kani::assume(min <= max); // @assume: property precondition min <= max
        let mut b = ExponentialBackOff::new(RetryStrategy::new(Duration::from_millis(min), Duration::from_millis(max)));
        let d1 = b.on_failure();
        let d2 = b.on_failure();
        let d3 = b.on_failure();
        let d4 = b.on_failure();
        assert!(d1 == Duration::from_millis(spec::backoff_kth(min, max, 1)));
        assert!(d2 == Duration::from_millis(spec::backoff_kth(min, max, 2)));
        assert!(d3 == Duration::from_millis(spec::backoff_kth(min, max, 3)));
        assert!(d4 == Duration::from_millis(spec::backoff_kth(min, max, 4)));
        assert!(d1 <= d2 && d2 <= d3 && d3 <= d4 && d4 <= Duration::from_millis(max));
        b.on_success();
        assert!(b.on_failure() == d1);
        kani::cover!(d4 == Duration::from_millis(max) && d3 < d4);
        kani::cover!(d4 < Duration::from_millis(max) && d1 > Duration::from_millis(0));
    }
